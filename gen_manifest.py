#!/usr/bin/env python3
# Regenerates MANIFEST.json from the table below (kept in one place so that the
# manifest stays valid while properties are added).
import json, subprocess

TECH = "contract-based deductive verification: weakest-precondition VCs generated from go/ssa of /repo (-tags verif), //@ contracts in zz_contracts_verif.go, discharged by z3 4.8.12 / z3 5.1.0 / cvc5 1.0 (race)"

claimed = {
 # id: (text, note, design_ref)
}
na = {}

def load():
    import importlib.util, os
    spec = importlib.util.spec_from_file_location("claims", os.path.join(os.path.dirname(__file__), "claims.py"))
    m = importlib.util.module_from_spec(spec); spec.loader.exec_module(m)
    return m.claimed, m.na

def main():
    claimed, na = load()
    props = [json.loads(l) for l in open('/verif/properties.jsonl')]
    hooks = subprocess.run(["git","-C","/repo","log","--format=%h %s"],capture_output=True,text=True).stdout.splitlines()
    hook_commits = [l.split()[0] for l in hooks if l.split(' ',1)[1].startswith('verif hook')]
    checks = []
    for p in props:
        i = p['id']
        if i in claimed:
            text, note, ref = claimed[i]
            checks.append({
                "property_id": i,
                "quick_cmd": f"./check {i}",
                "thorough_cmd": f"./check {i} --tier thorough",
                "evidence_file": f"/verif/evidence/{i}.json",
                "replay_cmd_template": "./check --replay {path}",
                "engine": "vcgen",
                "level_claimed": {"category": "proof", "text": text, "design_ref": ref},
                "level_note": note,
                "technique": TECH,
            })
    m = {
        "version": 1,
        "setup_cmd": "cd /verif/vcgen && GOFLAGS=-mod=mod GOPROXY=off GOSUMDB=off GOTOOLCHAIN=local go build -o /verif/bin/vcgen .",
        "hooks": {
            "guard": "verif",
            "enable": "Go build tag `verif` (go build -tags verif ./...); the only hook files are comment-only contract files <pkg>/zz_contracts_verif.go, which compile to nothing",
            "baseline_off_cmd": "cd /repo && go test -vet=off -count=1 ./...",
            "source_commits": hook_commits,
            "add_only": True,
        },
        "engines": [{"name": "vcgen", "path": "/verif/vcgen", "serves_properties": sorted(claimed.keys()),
                     "kind_free_text": "verification-condition generator over go/ssa + contract language + SMT back ends (z3, z3-new, cvc5) + counterexample replay through go test -overlay"}],
        "checks": checks,
        "notes": "Exit codes of ./check: 0 held (KNOWN-FINDING lines possible), 1 VIOLATION, 2 undecided by the machinery (never on the unchanged tree). obligations.lock lists what is discharged on the reference tree; known_findings.jsonl lists recorded defects.",
        "not_applicable": [{"property_id": p['id'], "reason": na.get(p['id'], "not yet claimed: contracts for this property are still being written (DESIGN.md §7)")} for p in props if p['id'] not in claimed],
    }
    json.dump(m, open('/verif/MANIFEST.json','w'), indent=1)
    print("claimed:", sorted(claimed.keys()))

main()
