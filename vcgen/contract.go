package main

// contract.go — reads the //@ contract files (comment-only Go files behind the
// build tag `verif` in /repo/<pkg>/zz_contracts_verif.go, plus dependency
// contracts in /verif/deps).

import (
	"fmt"
	"os"
	"path/filepath"
	"regexp"
	"strconv"
	"strings"
)

type Clause struct {
	Kind  string // requires, ensures, invariant, decreases, lemma, axiom, assert
	Label string
	Text  string
	E     *Expr
	File  string
	Line  int
}

type LoopSpec struct {
	Invariants []*Clause
	Steps      []*Clause // transition invariants: checked at every back edge, prev(e) = value at the header
	Decreases  *Clause
	Unroll     bool
}

type FuncContract struct {
	Pkg      string // package path
	PkgName  string
	Name     string // as printed by fn.RelString(pkg): "(Count32).Plus"
	Assumed  bool   // contract of an external / unverified function: never proved
	Iface    bool
	Requires []*Clause
	Ensures  []*Clause
	Modifies []string // raw lvalue expressions; nil = nothing; "everything"
	HasMod   bool
	Decreases *Clause // termination measure of a (directly) recursive function
	Loops    map[int]*LoopSpec
	Options  map[string]string
	Lets     []struct{ Name string; E *Expr }
	Pure     bool
	File     string
	Line     int
	Trust    string // assumption id for assumed contracts
	CallNames []CallName
	CallAsserts []CallAssert
	Ghosts      []GhostCounter
}

// GhostCounter: a ghost integer that counts the executed calls whose callee
// name contains Callee (0 at function entry); usable in every clause.
type GhostCounter struct {
	Name   string
	Callee string
}

// CallAssert: an assertion checked in the state just before the k-th call to
// a callee (old() = entry state of the function). With Assume set the clause
// is instead ASSUMED in the state just after that call (a named assumption
// about an external callee, listed in the trusted base).
type CallAssert struct {
	Ordinal int
	Callee  string
	C       *Clause
	Assume  bool
	Trust   string
}

// CallName binds the result of the k-th call (in block order) whose callee
// name contains Callee to a name usable in ensures clauses: <name> (single
// result) or <name>0, <name>1, ... (tuple); <name>_reached tells whether the
// call was executed.
type CallName struct {
	Ordinal int
	Callee  string
	Name    string
}

func (fc *FuncContract) Full() string { return fc.PkgName + "." + fc.Name }

type SpecFn struct {
	Name   string
	Params []Bind
	Ret    string
	Body   *Expr // nil: uninterpreted
	Pkg    string
}

type Lemma struct {
	Name  string
	E     *Expr
	Text  string
	Axiom bool
	Trust string
	Pkg   string
	PkgName string
	Int   bool // proved over mathematical integers
	Uses  []string // axioms to include
}

type Contracts struct {
	Funcs  map[string]*FuncContract // key: pkgpath + "::" + name
	Specs  map[string]*SpecFn
	Lemmas map[string]*Lemma
	Props  map[string][]string // property id -> names
	Order  []string
}

var keywordRe = regexp.MustCompile(`^(func|assumed|iface|spec|lemma|axiom|property|requires|ensures|modifies|loop|panics|option|let|pure|trust|call|ghost|decreases|recv)\b`)

func LoadContracts(files map[string][2]string) (*Contracts, error) {
	cs := &Contracts{Funcs: map[string]*FuncContract{}, Specs: map[string]*SpecFn{}, Lemmas: map[string]*Lemma{}, Props: map[string][]string{}}
	for file, pk := range files {
		if err := cs.loadFile(file, pk[0], pk[1]); err != nil {
			return nil, err
		}
	}
	return cs, nil
}

type rawClause struct {
	text string
	line int
}

func (cs *Contracts) loadFile(file, pkgPath, pkgName string) error {
	data, err := os.ReadFile(file)
	if err != nil {
		return err
	}
	var clauses []rawClause
	for i, ln := range strings.Split(string(data), "\n") {
		t := strings.TrimSpace(ln)
		if !strings.HasPrefix(t, "//@") {
			continue
		}
		t = strings.TrimSpace(t[3:])
		if t == "" {
			continue
		}
		// strip trailing comments introduced by " // "
		if k := strings.Index(t, " // "); k >= 0 {
			t = strings.TrimSpace(t[:k])
		}
		if keywordRe.MatchString(t) || len(clauses) == 0 {
			clauses = append(clauses, rawClause{t, i + 1})
		} else {
			clauses[len(clauses)-1].text += " " + t
		}
	}
	var cur *FuncContract
	base := filepath.Base(filepath.Dir(file)) + "/" + filepath.Base(file)
	for _, rc := range clauses {
		kw := keywordRe.FindString(rc.text)
		rest := strings.TrimSpace(rc.text[len(kw):])
		perr := func(err error) error {
			return fmt.Errorf("%s:%d: %v", file, rc.line, err)
		}
		mk := func(kind, text string) (*Clause, error) {
			label := ""
			if strings.HasPrefix(text, "@") {
				k := strings.IndexAny(text, " \t")
				if k < 0 {
					return nil, perr(fmt.Errorf("label without expression"))
				}
				label = text[1:k]
				text = strings.TrimSpace(text[k:])
			}
			e, err := ParseExpr(text)
			if err != nil {
				return nil, perr(err)
			}
			return &Clause{Kind: kind, Label: label, Text: text, E: e, File: base, Line: rc.line}, nil
		}
		switch kw {
		case "func", "assumed", "iface":
			name := rest
			assumed := false
			iface := kw == "iface"
			if kw == "assumed" {
				assumed = true
				name = strings.TrimSpace(strings.TrimPrefix(rest, "func"))
				if strings.HasPrefix(name, "iface ") {
					iface = true
					name = strings.TrimSpace(name[6:])
				}
			}
			pp, pn := pkgPath, pkgName
			// external: "pkgpath:Name" e.g. strings:IndexByte
			if k := strings.Index(name, ":"); k >= 0 && !strings.Contains(name[:k], "(") {
				pp, pn = name[:k], filepath.Base(name[:k])
				name = name[k+1:]
			}
			cur = &FuncContract{Pkg: pp, PkgName: pn, Name: name, Assumed: assumed, Iface: iface,
				Loops: map[int]*LoopSpec{}, Options: map[string]string{}, File: base, Line: rc.line}
			key := pp + "::" + name
			if _, dup := cs.Funcs[key]; dup {
				return perr(fmt.Errorf("duplicate contract for %s", key))
			}
			cs.Funcs[key] = cur
			cs.Order = append(cs.Order, key)
		case "requires", "ensures":
			if cur == nil {
				return perr(fmt.Errorf("clause outside func"))
			}
			c, err := mk(kw, rest)
			if err != nil {
				return err
			}
			if kw == "requires" {
				cur.Requires = append(cur.Requires, c)
			} else {
				cur.Ensures = append(cur.Ensures, c)
			}
		case "modifies":
			cur.HasMod = true
			for _, p := range splitTop(rest) {
				p = strings.TrimSpace(p)
				if p != "" && p != "nothing" {
					cur.Modifies = append(cur.Modifies, p)
				}
			}
		case "pure":
			cur.Pure = true
			cur.HasMod = true
		case "decreases":
			c, err := mk("decreases", rest)
			if err != nil {
				return err
			}
			cur.Decreases = c
		case "ghost":
			f := strings.Fields(rest)
			if len(f) != 3 || f[1] != "counts" {
				return perr(fmt.Errorf("ghost clause: ghost <name> counts <callee>"))
			}
			cur.Ghosts = append(cur.Ghosts, GhostCounter{f[0], f[2]})
		case "trust":
			cur.Trust = rest
		case "call":
			f := strings.Fields(rest)
			if len(f) >= 4 && f[2] == "assume" {
				k, err := strconv.Atoi(f[0])
				if err != nil {
					return perr(err)
				}
				body := strings.TrimSpace(rest[strings.Index(rest, " assume ")+8:])
				trust := "A-ENV"
				if strings.HasPrefix(body, "[") {
					j := strings.Index(body, "]")
					trust = body[1:j]
					body = strings.TrimSpace(body[j+1:])
				}
				c, err := mk("assume", body)
				if err != nil {
					return err
				}
				cur.CallAsserts = append(cur.CallAsserts, CallAssert{Ordinal: k, Callee: f[1], C: c, Assume: true, Trust: trust})
				break
			}
			if len(f) >= 4 && f[2] == "assert" {
				k, err := strconv.Atoi(f[0])
				if err != nil {
					return perr(err)
				}
				body := strings.TrimSpace(rest[strings.Index(rest, " assert ")+8:])
				c, err := mk("assert", body)
				if err != nil {
					return err
				}
				cur.CallAsserts = append(cur.CallAsserts, CallAssert{Ordinal: k, Callee: f[1], C: c})
				break
			}
			if len(f) != 4 || f[2] != "as" {
				return perr(fmt.Errorf("call clause: call <ordinal> <callee> as <name>"))
			}
			k, err := strconv.Atoi(f[0])
			if err != nil {
				return perr(err)
			}
			cur.CallNames = append(cur.CallNames, CallName{k, f[1], f[3]})
		case "recv":
			// recv <k> assert <e>: the k-th channel receive of the function (in
			// source order) blocks only where <e> holds -- the justification
			// that the sender has sent or will send. A function with any recv
			// clause must justify every receive it contains.
			f := strings.Fields(rest)
			if len(f) < 3 || f[1] != "assert" {
				return perr(fmt.Errorf("recv clause: recv <ordinal> assert <expr>"))
			}
			k, err := strconv.Atoi(f[0])
			if err != nil {
				return perr(err)
			}
			body := strings.TrimSpace(rest[strings.Index(rest, " assert ")+8:])
			c, err := mk("assert", body)
			if err != nil {
				return err
			}
			cur.CallAsserts = append(cur.CallAsserts, CallAssert{Ordinal: k, Callee: "<-", C: c})
		case "loop":
			f := strings.Fields(rest)
			if len(f) < 2 {
				return perr(fmt.Errorf("bad loop clause"))
			}
			k, err := strconv.Atoi(f[0])
			if err != nil {
				return perr(err)
			}
			ls := cur.Loops[k]
			if ls == nil {
				ls = &LoopSpec{}
				cur.Loops[k] = ls
			}
			body := strings.TrimSpace(strings.TrimPrefix(strings.TrimSpace(rest[len(f[0]):]), f[1]))
			switch f[1] {
			case "invariant":
				c, err := mk("invariant", body)
				if err != nil {
					return err
				}
				ls.Invariants = append(ls.Invariants, c)
			case "step":
				c, err := mk("step", body)
				if err != nil {
					return err
				}
				ls.Steps = append(ls.Steps, c)
			case "decreases":
				c, err := mk("decreases", body)
				if err != nil {
					return err
				}
				ls.Decreases = c
			case "unroll":
				ls.Unroll = true
			default:
				return perr(fmt.Errorf("unknown loop clause %q", f[1]))
			}
		case "panics":
			cur.Options["panics"] = rest
		case "option":
			f := strings.Fields(rest)
			v := "on"
			if len(f) > 1 {
				v = strings.Join(f[1:], " ")
			}
			cur.Options[f[0]] = v
		case "let":
			k := strings.Index(rest, "=")
			e, err := ParseExpr(strings.TrimSpace(rest[k+1:]))
			if err != nil {
				return perr(err)
			}
			cur.Lets = append(cur.Lets, struct {
				Name string
				E    *Expr
			}{strings.TrimSpace(rest[:k]), e})
		case "spec":
			sf, err := parseSpec(rest)
			if err != nil {
				return perr(err)
			}
			sf.Pkg = pkgPath
			cs.Specs[sf.Name] = sf
		case "lemma", "axiom":
			k := strings.Index(rest, ":")
			head := strings.Fields(rest[:k])
			lm := &Lemma{Name: head[0], Axiom: kw == "axiom", Pkg: pkgPath, PkgName: pkgName}
			for _, h := range head[1:] {
				switch {
				case h == "(Int)":
					lm.Int = true
				case strings.HasPrefix(h, "[") && strings.HasSuffix(h, "]"):
					lm.Trust = h[1 : len(h)-1]
				case strings.HasPrefix(h, "uses="):
					lm.Uses = strings.Split(h[5:], ",")
				}
			}
			text := strings.TrimSpace(rest[k+1:])
			e, err := ParseExpr(text)
			if err != nil {
				return perr(err)
			}
			lm.E, lm.Text = e, text
			cs.Lemmas[lm.Name] = lm
		case "property":
			k := strings.Index(rest, ":")
			id := strings.TrimSpace(rest[:k])
			for _, n := range splitNames(rest[k+1:]) {
				if !strings.Contains(n, "::") && !strings.HasPrefix(n, "lemma/") && !strings.HasPrefix(n, "structural/") {
					n = pkgPath + "::" + n
				}
				cs.Props[id] = append(cs.Props[id], n)
			}
		default:
			return perr(fmt.Errorf("unrecognised clause %q", rc.text))
		}
	}
	return nil
}

// splitNames splits on whitespace outside parentheses.
func splitNames(s string) []string {
	var out []string
	depth := 0
	cur := ""
	for _, r := range s {
		switch {
		case r == '(':
			depth++
			cur += string(r)
		case r == ')':
			depth--
			cur += string(r)
		case (r == ' ' || r == '\t') && depth == 0:
			if cur != "" {
				out = append(out, cur)
			}
			cur = ""
		default:
			cur += string(r)
		}
	}
	if cur != "" {
		out = append(out, cur)
	}
	return out
}

func splitTop(s string) []string {
	var out []string
	depth := 0
	cur := ""
	for _, r := range s {
		switch {
		case r == '(' || r == '[':
			depth++
			cur += string(r)
		case r == ')' || r == ']':
			depth--
			cur += string(r)
		case r == ',' && depth == 0:
			out = append(out, cur)
			cur = ""
		default:
			cur += string(r)
		}
	}
	if strings.TrimSpace(cur) != "" {
		out = append(out, cur)
	}
	return out
}

var specRe = regexp.MustCompile(`^(\w+)\s*\(([^)]*)\)\s*([\w.]+)\s*(=\s*(.*))?$`)

func parseSpec(s string) (*SpecFn, error) {
	m := specRe.FindStringSubmatch(s)
	if m == nil {
		return nil, fmt.Errorf("bad spec: %s", s)
	}
	sf := &SpecFn{Name: m[1], Ret: m[3]}
	// params: "a, b T, c U"
	var pend []string
	for _, grp := range strings.Split(m[2], ",") {
		f := strings.Fields(grp)
		switch len(f) {
		case 0:
		case 1:
			pend = append(pend, f[0])
		case 2:
			pend = append(pend, f[0])
			for _, n := range pend {
				sf.Params = append(sf.Params, Bind{n, f[1]})
			}
			pend = nil
		default:
			return nil, fmt.Errorf("bad spec params: %s", m[2])
		}
	}
	if len(pend) > 0 {
		return nil, fmt.Errorf("spec param without type: %v", pend)
	}
	if m[5] != "" {
		e, err := ParseExpr(m[5])
		if err != nil {
			return nil, err
		}
		sf.Body = e
	}
	return sf, nil
}
