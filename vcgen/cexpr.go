package main

// cexpr.go — parser for the contract expression language (Go expression
// syntax plus ==>, <==>, forall/exists binders, old(), wide()).

import (
	"fmt"
	"strings"
	"unicode"
)

type Expr struct {
	Op    string // "lit","str","chr","flt","id","sel","idx","slice","call","un","bin","q"
	S     string // literal text / identifier / operator / field name / quantifier kind
	Args  []*Expr
	Binds []Bind // for quantifiers
}

type Bind struct{ Name, Type string }

func (e *Expr) String() string {
	switch e.Op {
	case "lit", "id", "flt":
		return e.S
	case "str":
		return fmt.Sprintf("%q", e.S)
	case "chr":
		return fmt.Sprintf("'%s'", e.S)
	case "sel":
		return e.Args[0].String() + "." + e.S
	case "idx":
		return e.Args[0].String() + "[" + e.Args[1].String() + "]"
	case "slice":
		lo, hi := "", ""
		if e.Args[1] != nil {
			lo = e.Args[1].String()
		}
		if e.Args[2] != nil {
			hi = e.Args[2].String()
		}
		return e.Args[0].String() + "[" + lo + ":" + hi + "]"
	case "call":
		var a []string
		for _, x := range e.Args {
			a = append(a, x.String())
		}
		return e.S + "(" + strings.Join(a, ", ") + ")"
	case "un":
		return e.S + e.Args[0].String()
	case "bin":
		return "(" + e.Args[0].String() + " " + e.S + " " + e.Args[1].String() + ")"
	case "q":
		var b []string
		for _, x := range e.Binds {
			b = append(b, x.Name+" "+x.Type)
		}
		return e.S + " " + strings.Join(b, ", ") + " :: " + e.Args[0].String()
	}
	return "?"
}

type tok struct {
	k string // "num","flt","id","str","chr","op","eof"
	s string
}

func lex(src string) ([]tok, error) {
	var out []tok
	i := 0
	ops := []string{"<==>", "==>", "::", "&&", "||", "==", "!=", "<=", ">=", "<<", ">>", "&^",
		"+", "-", "*", "/", "%", "&", "|", "^", "<", ">", "!", "(", ")", "[", "]", ",", ".", ":", "{", "}"}
	for i < len(src) {
		c := src[i]
		switch {
		case c == ' ' || c == '\t' || c == '\n':
			i++
		case unicode.IsDigit(rune(c)):
			j := i
			isF := false
			if c == '0' && j+1 < len(src) && (src[j+1] == 'x' || src[j+1] == 'X' || src[j+1] == 'o') {
				j += 2
				for j < len(src) && (unicode.IsDigit(rune(src[j])) || strings.ContainsRune("abcdefABCDEF_", rune(src[j]))) {
					j++
				}
			} else {
				for j < len(src) && (unicode.IsDigit(rune(src[j])) || src[j] == '_') {
					j++
				}
				if j < len(src) && src[j] == '.' && j+1 < len(src) && unicode.IsDigit(rune(src[j+1])) {
					isF = true
					j++
					for j < len(src) && unicode.IsDigit(rune(src[j])) {
						j++
					}
				}
				if j < len(src) && (src[j] == 'e' || src[j] == 'E') {
					isF = true
					j++
					if j < len(src) && (src[j] == '+' || src[j] == '-') {
						j++
					}
					for j < len(src) && unicode.IsDigit(rune(src[j])) {
						j++
					}
				}
			}
			if isF {
				out = append(out, tok{"flt", src[i:j]})
			} else {
				out = append(out, tok{"num", strings.ReplaceAll(src[i:j], "_", "")})
			}
			i = j
		case unicode.IsLetter(rune(c)) || c == '_':
			j := i
			for j < len(src) && (unicode.IsLetter(rune(src[j])) || unicode.IsDigit(rune(src[j])) || src[j] == '_' || src[j] == '$') {
				j++
			}
			out = append(out, tok{"id", src[i:j]})
			i = j
		case c == '"':
			j := i + 1
			var b strings.Builder
			for j < len(src) && src[j] != '"' {
				if src[j] == '\\' && j+1 < len(src) {
					j++
					switch src[j] {
					case 'n':
						b.WriteByte('\n')
					case 't':
						b.WriteByte('\t')
					case '0':
						b.WriteByte(0)
					case 'x':
						var v int
						fmt.Sscanf(src[j+1:j+3], "%02x", &v)
						b.WriteByte(byte(v))
						j += 2
					default:
						b.WriteByte(src[j])
					}
				} else {
					b.WriteByte(src[j])
				}
				j++
			}
			if j >= len(src) {
				return nil, fmt.Errorf("unterminated string")
			}
			out = append(out, tok{"str", b.String()})
			i = j + 1
		case c == '\'':
			j := i + 1
			var ch byte
			if src[j] == '\\' {
				j++
				switch src[j] {
				case 'n':
					ch = '\n'
				case '0':
					ch = 0
				case 't':
					ch = '\t'
				default:
					ch = src[j]
				}
			} else {
				ch = src[j]
			}
			j++
			if j >= len(src) || src[j] != '\'' {
				return nil, fmt.Errorf("bad char literal")
			}
			out = append(out, tok{"chr", fmt.Sprintf("%d", ch)})
			i = j + 1
		default:
			found := false
			for _, op := range ops {
				if strings.HasPrefix(src[i:], op) {
					out = append(out, tok{"op", op})
					i += len(op)
					found = true
					break
				}
			}
			if !found {
				return nil, fmt.Errorf("unexpected character %q in %q", c, src)
			}
		}
	}
	out = append(out, tok{"eof", ""})
	return out, nil
}

type parser struct {
	toks []tok
	p    int
}

func ParseExpr(src string) (e *Expr, err error) {
	toks, err := lex(src)
	if err != nil {
		return nil, err
	}
	defer func() {
		if r := recover(); r != nil {
			err = fmt.Errorf("parse error in %q: %v", src, r)
		}
	}()
	ps := &parser{toks: toks}
	e = ps.expr(0)
	if ps.peek().k != "eof" {
		panic("trailing tokens at " + ps.peek().s)
	}
	return e, nil
}

func (p *parser) peek() tok { return p.toks[p.p] }
func (p *parser) next() tok { t := p.toks[p.p]; p.p++; return t }
func (p *parser) accept(s string) bool {
	if p.peek().k == "op" && p.peek().s == s {
		p.p++
		return true
	}
	return false
}
func (p *parser) expect(s string) {
	if !p.accept(s) {
		panic(fmt.Sprintf("expected %q, got %q", s, p.peek().s))
	}
}

var prec = map[string]int{
	"<==>": 1, "==>": 2, "||": 3, "&&": 4,
	"==": 5, "!=": 5, "<": 5, "<=": 5, ">": 5, ">=": 5,
	"+": 6, "-": 6, "|": 6, "^": 6,
	"*": 7, "/": 7, "%": 7, "<<": 7, ">>": 7, "&": 7, "&^": 7,
}

func (p *parser) expr(minPrec int) *Expr {
	if p.peek().k == "id" && (p.peek().s == "forall" || p.peek().s == "exists") {
		return p.quant()
	}
	lhs := p.unary()
	for {
		t := p.peek()
		if t.k != "op" {
			break
		}
		pr, ok := prec[t.s]
		if !ok || pr < minPrec {
			break
		}
		p.next()
		var rhs *Expr
		if t.s == "==>" {
			rhs = p.expr(pr) // right associative
		} else {
			rhs = p.expr(pr + 1)
		}
		lhs = &Expr{Op: "bin", S: t.s, Args: []*Expr{lhs, rhs}}
	}
	return lhs
}

func (p *parser) quant() *Expr {
	kind := p.next().s
	var binds []Bind
	for {
		var names []string
		names = append(names, p.next().s)
		for p.accept(",") {
			names = append(names, p.next().s)
		}
		// the last identifier before "::" or "," group end is a type if the
		// following token is not ","/"::" — syntax: x, y T
		// we read: names... then a type identifier
		// Here names holds [x, y] and next token is the type.
		stars := ""
		for p.peek().s == "*" {
			p.next()
			stars += "*"
		}
		if p.peek().k == "id" {
			ty := stars + p.next().s
			for p.accept(".") {
				ty += "." + p.next().s
			}
			for _, n := range names {
				binds = append(binds, Bind{n, ty})
			}
		} else {
			// form "x T, y U": the last name is really the type
			panic("quantifier binder needs a type")
		}
		if p.accept(";") || false {
			continue
		}
		if p.peek().k == "op" && p.peek().s == "::" {
			break
		}
		if !p.accept(",") {
			panic("expected :: in quantifier")
		}
	}
	p.expect("::")
	body := p.expr(0)
	return &Expr{Op: "q", S: kind, Binds: binds, Args: []*Expr{body}}
}

func (p *parser) unary() *Expr {
	t := p.peek()
	if t.k == "op" && (t.s == "!" || t.s == "-" || t.s == "*" || t.s == "&" || t.s == "^") {
		p.next()
		x := p.unary()
		return &Expr{Op: "un", S: t.s, Args: []*Expr{x}}
	}
	return p.postfix(p.primary())
}

func (p *parser) primary() *Expr {
	t := p.next()
	switch t.k {
	case "num":
		return &Expr{Op: "lit", S: t.s}
	case "flt":
		return &Expr{Op: "flt", S: t.s}
	case "str":
		return &Expr{Op: "str", S: t.s}
	case "chr":
		return &Expr{Op: "chr", S: t.s}
	case "id":
		return &Expr{Op: "id", S: t.s}
	case "op":
		if t.s == "(" {
			e := p.expr(0)
			p.expect(")")
			return e
		}
	}
	panic(fmt.Sprintf("unexpected token %q", t.s))
}

func (p *parser) postfix(e *Expr) *Expr {
	for {
		switch {
		case p.accept("."):
			n := p.next()
			e = &Expr{Op: "sel", S: n.s, Args: []*Expr{e}}
		case p.accept("("):
			var args []*Expr
			if !p.accept(")") {
				for {
					args = append(args, p.expr(0))
					if p.accept(")") {
						break
					}
					p.expect(",")
				}
			}
			name := e.String()
			e = &Expr{Op: "call", S: name, Args: args}
		case p.accept("["):
			var lo, hi *Expr
			if p.peek().k == "op" && p.peek().s == ":" {
				p.next()
				if !(p.peek().k == "op" && p.peek().s == "]") {
					hi = p.expr(0)
				}
				p.expect("]")
				e = &Expr{Op: "slice", Args: []*Expr{e, nil, hi}}
				continue
			}
			lo = p.expr(0)
			if p.accept(":") {
				if !(p.peek().k == "op" && p.peek().s == "]") {
					hi = p.expr(0)
				}
				p.expect("]")
				e = &Expr{Op: "slice", Args: []*Expr{e, lo, hi}}
				continue
			}
			p.expect("]")
			e = &Expr{Op: "idx", Args: []*Expr{e, lo}}
		default:
			return e
		}
	}
}
