package main

// check.go — the property-level check: generate, discharge, judge, replay,
// write evidence. Exit 0 held / 1 violation / 2 undecided.

import (
	"sync"
	"bufio"
	"encoding/json"
	"flag"
	"fmt"
	"go/types"
	"os"
	"path/filepath"
	"sort"
	"strings"
	"time"
)

type KnownFinding struct {
	Kind       string `json:"kind"` // "known" | "fixed"
	Property   string `json:"property"`
	Obligation string `json:"obligation"`
	Region     string `json:"region,omitempty"` // contract expression over the function's entry state
	Prefix     bool   `json:"prefix,omitempty"` // `obligation` is a prefix: the finding covers the obligations of that function and kind wherever an edit moves them (ordinals, inlined helpers)
	Text       string `json:"text"`
	Commit     string `json:"commit,omitempty"`
}

func loadKnown(path string) ([]KnownFinding, error) {
	f, err := os.Open(path)
	if err != nil {
		if os.IsNotExist(err) {
			return nil, nil
		}
		return nil, err
	}
	defer f.Close()
	var out []KnownFinding
	sc := bufio.NewScanner(f)
	sc.Buffer(make([]byte, 1<<20), 1<<20)
	for sc.Scan() {
		ln := strings.TrimSpace(sc.Text())
		if ln == "" || strings.HasPrefix(ln, "#") || strings.HasPrefix(ln, "fixed:") {
			continue
		}
		var k KnownFinding
		if err := json.Unmarshal([]byte(ln), &k); err != nil {
			return nil, fmt.Errorf("%s: %v", path, err)
		}
		out = append(out, k)
	}
	return out, nil
}

type Lock struct {
	Obligations map[string]map[string]string `json:"obligations"` // property -> obligation -> status
	Covers      map[string]map[string]string `json:"covers"`      // property -> obligation -> "sat" (reachable on the reference tree; thorough tier)
	Sigs        map[string]*FuncSig          `json:"signatures"`  // function -> names of parameters, results and locals on the reference tree
	Structs     map[string][]string          `json:"structs"`     // named struct type of the module -> "field type" per field, in order, on the reference tree
	Funcs       map[string]string            `json:"functions"`   // function or method of the module ("pkgpath::rel") -> receiver, parameter and result types on the reference tree
}

func loadLock(path string) *Lock {
	l := &Lock{Obligations: map[string]map[string]string{}, Covers: map[string]map[string]string{}, Sigs: map[string]*FuncSig{}}
	data, err := os.ReadFile(path)
	if err == nil {
		json.Unmarshal(data, l)
	}
	return l
}

func okStatus(o *Obligation) bool {
	if o.Kind == "vacuity" {
		return o.Status == "sat"
	}
	return o.Status == "unsat"
}

type propRun struct {
	id       string
	results  []*FuncResult
	obls     []*Obligation
	v        *Verifier
}

func (v *Verifier) generateProperty(id string) (*propRun, error) {
	names, ok := v.cs.Props[id]
	if !ok {
		return nil, fmt.Errorf("no `//@ property %s:` line in any contract file", id)
	}
	pr := &propRun{id: id, v: v}
	seen := map[string]bool{}
	for _, n := range names {
		if seen[n] {
			continue
		}
		seen[n] = true
		if strings.HasPrefix(n, "structural/") {
			pr.results = append(pr.results, v.VerifyStructural(strings.TrimPrefix(n, "structural/"), names))
			continue
		}
		if strings.HasPrefix(n, "lemma/") {
			lm := v.cs.Lemmas[strings.TrimPrefix(n, "lemma/")]
			if lm == nil {
				return nil, fmt.Errorf("property %s names unknown lemma %s", id, n)
			}
			pr.results = append(pr.results, v.VerifyLemma(lm))
			continue
		}
		// `F@label`: the function serves this property through its clauses
		// labelled @label only (the rest of its contract belongs to the
		// properties it is bound to without a label)
		only := ""
		if k := strings.LastIndex(n, "@"); k > strings.Index(n, "::") && k >= 0 {
			n, only = n[:k], n[k+1:]
		}
		fc := v.cs.Funcs[n]
		if fc == nil {
			return nil, fmt.Errorf("property %s names %s, which has no contract", id, n)
		}
		if fc.Assumed || fc.Iface {
			continue
		}
		fr := v.VerifyFunc(fc)
		if only != "" {
			cp := *fr
			cp.Obls = nil
			for _, o := range fr.Obls {
				if strings.HasSuffix(o.Name, "@"+only) {
					cp.Obls = append(cp.Obls, o)
				}
			}
			if len(cp.Obls) == 0 {
				return nil, fmt.Errorf("property %s names %s@%s, but no clause of that contract carries the label", id, n, only)
			}
			fr = &cp
		}
		pr.results = append(pr.results, fr)
	}
	for _, r := range pr.results {
		pr.obls = append(pr.obls, r.Obls...)
	}
	return pr, nil
}

func checkMain(args []string) int {
	fs := flag.NewFlagSet("check", flag.ExitOnError)
	repo := fs.String("repo", "/repo", "repository")
	root := fs.String("verif", "/verif", "verification root")
	tier := fs.String("tier", "quick", "quick|thorough")
	replayPath := fs.String("replay", "", "re-run a replay file")
	writeLock := fs.Bool("write-lock", false, "record the discharged obligations in obligations.lock (reference tree only)")
	noEvidence := fs.Bool("no-evidence", false, "do not write evidence (used by selftest)")
	replayDirFlag := fs.String("replay-dir", "", "directory for replay files (default <verif>/replays)")
	fs.Parse(args)
	if *replayPath != "" {
		return replayMain(*repo, *replayPath)
	}
	if fs.NArg() != 1 {
		fmt.Fprintln(os.Stderr, "usage: vcgen check [--tier quick|thorough] <property id>")
		return 2
	}
	if t := os.Getenv("VERIF_TIER"); t != "" && *tier == "quick" {
		// explicit flag wins; env only fills the default
	}
	id := fs.Arg(0)
	start := time.Now()
	seed := 0
	if s := os.Getenv("VERIF_SEED"); s != "" {
		fmt.Sscan(s, &seed)
	}
	v, err := LoadVerifier(*repo, filepath.Join(*root, "deps"))
	if err != nil {
		fmt.Fprintf(os.Stderr, "UNDECIDED property=%s: cannot load /repo with -tags verif: %v\n", id, err)
		return 2
	}
	loadS := time.Since(start).Seconds()
	if !*writeLock {
		lk := loadLock(filepath.Join(*root, "obligations.lock"))
		v.lockSigs = lk.Sigs
		lockStructs = lk.Structs
		v.detectRenames(lk.Funcs)
	}
	pr, err := v.generateProperty(id)
	if err != nil {
		fmt.Fprintf(os.Stderr, "UNDECIDED property=%s: %v\n", id, err)
		return 2
	}
	timeout := 60
	all := false
	if *tier == "thorough" {
		timeout = 300
		all = true
	}
	work, _ := os.MkdirTemp("", "vcgen-"+id)
	defer os.RemoveAll(work)
	solveAll(pr.obls, work, timeout, all)
	// thorough tier: a reachability cover behind every named obligation —
	// its guard must be satisfiable together with everything assumed before
	// it (contradictory invariants, assumed contracts or call-site
	// assumptions would otherwise discharge everything vacuously)
	var covers []*Obligation
	if *tier == "thorough" {
		// one cover per distinct guard of a function: the one with the most
		// assumptions in front of it (largest mark) subsumes the others
		byGuard := map[string]*Obligation{}
		var orderKeys []string
		add := func(o *Obligation, name string) {
			if o.Guard == "true" || o.Guard == "false" || o.Ctx == nil {
				return
			}
			key := o.Func + "\x00" + o.Guard
			if old, ok := byGuard[key]; ok {
				if o.Mark > old.Mark {
					old.Mark = o.Mark
				}
				old.Text += ", " + name
				return
			}
			cv := &Obligation{Name: "cover:" + name, Kind: "cover", Func: o.Func, Mark: o.Mark, Guard: o.Guard, Goal: "false",
				Text: "the guard is reachable under the assumptions; it guards " + name, Ctx: o.Ctx, Pos: o.Pos}
			byGuard[key] = cv
			orderKeys = append(orderKeys, key)
		}
		for _, o := range pr.obls {
			if o.Kind == "vacuity" || o.Kind == "structural" || o.Kind == "lemma" || o.Safety {
				continue
			}
			if len(o.SubObls) > 0 {
				for i, sub := range o.SubObls {
					add(sub, fmt.Sprintf("%s.edge%d", o.Name, i))
				}
				continue
			}
			add(o, o.Name)
		}
		for _, k := range orderKeys {
			covers = append(covers, byGuard[k])
		}
		solveAll(covers, work, 20, false)
	}

	known, err := loadKnown(filepath.Join(*root, "known_findings.jsonl"))
	if err != nil {
		fmt.Fprintf(os.Stderr, "UNDECIDED property=%s: %v\n", id, err)
		return 2
	}
	lock := loadLock(filepath.Join(*root, "obligations.lock"))
	locked := lock.Obligations[id]

	exit := 0
	undecided := []string{}
	violations := 0
	var knownLines []string
	discharged, total, vacuity := 0, 0, 0
	bySolver := map[string]int{}
	solverSeconds := 0.0
	var funcs []string
	var restricted []string
	resOf := map[*Obligation]*FuncResult{}
	gone := map[string]bool{}
	for _, r := range pr.results {
		funcs = append(funcs, r.Name)
		for _, o := range r.Obls {
			resOf[o] = r
		}
		if r.Gone {
			// the function of this contract no longer exists and no other
			// function took its name: deleted, or inlined into its callers.
			// Its obligations are void; what its callers now do themselves is
			// proved against their own contracts.
			gone[r.Name] = true
			continue
		}
		if r.Unsupported != "" {
			undecided = append(undecided, fmt.Sprintf("%s: %s", r.Name, r.Unsupported))
		}
	}
	replayDir := filepath.Join(*root, "replays", id)
	if *replayDirFlag != "" {
		replayDir = filepath.Join(*replayDirFlag, id)
	}
	// Failing obligations are judged concurrently (re-solves and replays are
	// slow); everything that touches a generation context happens first,
	// sequentially.
	type failJob struct {
		o     *Obligation
		r     *FuncResult
		known *KnownFinding
		o2    *Obligation // o restricted to the complement of the known region
	}
	type failOut struct {
		knownLine, restricted, solver string
		seconds                       float64
		handled                       bool
		violationLine, undecided      string
	}
	var jobs []*failJob
	for _, o := range pr.obls {
		solverSeconds += o.Seconds
		if o.Kind == "vacuity" {
			vacuity++
			if o.Status == "unsat" {
				undecided = append(undecided, fmt.Sprintf("%s: precondition is unsatisfiable (vacuous contract)", o.Name))
			}
			continue
		}
		total++
		if o.Status == "disagree" {
			undecided = append(undecided, fmt.Sprintf("%s: solvers disagree", o.Name))
			continue
		}
		if okStatus(o) {
			discharged++
			bySolver[o.Solver]++
			continue
		}
		job := &failJob{o: o, r: resOf[o]}
		handled := false
		for i := range known {
			k := &known[i]
			if k.Kind != "known" || !propListed(k.Property, id) || (k.Obligation != o.Name && !(k.Prefix && strings.HasPrefix(o.Name, k.Obligation))) {
				continue
			}
			if k.Region == "" {
				knownLines = append(knownLines, fmt.Sprintf("KNOWN-FINDING: property=%s %s (%s)", id, k.Text, o.Name))
				handled = true
				total--
				break
			}
			renv := job.r.PostEnv
			if renv == nil {
				renv = job.r.EntryEnv
			}
			useCtx(o.Ctx)
			if renv != nil {
				if e, perr := ParseExpr(k.Region); perr == nil {
					if rt, eerr := renv.Bool(e); eerr == nil {
						o2 := *o
						o2.Guard = and(o.Guard, not(rt))
						o2.Name = o.Name + "~outside-known-region"
						// the region term may use names declared after o.Mark
						o2.Mark = o.Ctx.mark()
						o2.Inputs = nil
						job.known, job.o2 = k, &o2
					}
				}
			}
			break
		}
		if !handled {
			jobs = append(jobs, job)
		}
	}
	// freeze the contexts: from here on they are only read
	ctxLen := map[*Ctx]int{}
	for _, j := range jobs {
		if _, ok := ctxLen[j.o.Ctx]; !ok {
			ctxLen[j.o.Ctx] = j.o.Ctx.mark()
		}
	}
	outs := make([]failOut, len(jobs))
	judge := func(j *failJob) (out failOut) {
		o, r := j.o, j.r
		if j.o2 != nil {
			j.o2.Solve(work, timeout, false)
			out.seconds += j.o2.Seconds
			if j.o2.Status == "unsat" {
				out.knownLine = fmt.Sprintf("KNOWN-FINDING: property=%s %s (%s fails only where %s)", id, j.known.Text, o.Name, j.known.Region)
				out.restricted = fmt.Sprintf("%s proved outside the known region %s", o.Name, j.known.Region)
				out.solver = j.o2.Solver
				out.handled = true
				return
			}
		}
		// replay
		rf := &ReplayFile{Property: id, Obligation: o.Name, Kind: o.Kind, Function: o.Func, Text: o.Text, Pos: o.Pos,
			Status: o.Status, Solver: o.Solver, SolverOut: truncate(o.Raw, 6000)}
		confirmed := false
		replayRan := false
		if r != nil && r.Plan != nil && len(o.Model) > 0 && !o.Safety && o.Kind != "post" && o.Kind != "lemma" && r.AllTerms != nil {
			// a mid-function obligation that does not panic (overflow, …):
			// solve it again in the context of the whole function so that the
			// model also predicts the outputs.
			o2 := *o
			o2.Mark = ctxLen[o.Ctx]
			o2.Inputs = r.AllTerms
			o2.Name = o.Name + "~full"
			o2.Solve(work, timeout, false)
			if o2.Status == "sat" && len(o2.Model) > 0 {
				o.Model = o2.Model
				o.Inputs = r.AllTerms
			}
		}
		if r != nil && r.Plan != nil && len(o.Model) > 0 {
			// prefer a small model: the same obligation with every input
			// string/slice bounded to 24 elements (phase 2 of DESIGN §6).
			var small []Term
			for _, p := range r.Plan.Params {
				collectLens(p.Val, &small)
				if p.Pointee != nil {
					collectLens(*p.Pointee, &small)
				}
			}
			if len(small) > 0 {
				o3 := *o
				o3.Guard = and(append([]Term{o.Guard}, small...)...)
				o3.Name = o.Name + "~small"
				o3.Parts = nil
				w, _ := race(o3.ScriptSmall(25), work, sanitize(o3.Name), timeout, false)
				if w.status == "sat" {
					if m := parseModel(w.out); len(m) > 0 {
						o.Model = m
						o.Raw += "\n--- small model (all input lengths <= 24, quantified assumptions expanded over 0..24) ---\n" + truncate(w.out, 3000)
					}
				}
			}
			src, predicted, _, note := v.BuildReplay(r, o)
			rf.ReplayNote = note
			if src != "" {
				observed, pmsg, done, raw := RunReplay(*repo, r.Plan.PkgPath, src)
				replayRan = done || pmsg != ""
				rf.TestSource, rf.Predicted, rf.Observed, rf.Panic = src, predicted, observed, pmsg
				rf.PkgDir = r.Plan.PkgPath
				rf.RunOutput = truncate(raw, 4000)
				rf.Inputs = map[string]string{}
				for _, nt := range o.Inputs {
					if strings.HasPrefix(nt.Name, "in:") {
						if val, ok := o.Model[normTerm(nt.T)]; ok && !strings.Contains(nt.Name, ".b") {
							rf.Inputs[nt.Name] = val
						}
					}
				}
				if o.Safety {
					confirmed = pmsg != ""
				} else if done && pmsg == "" && len(predicted) > 0 {
					confirmed = true
					for k, pv := range predicted {
						if observed[k] != pv {
							confirmed = false
						}
					}
				} else if pmsg != "" {
					// a panic where the contract promises a normal return
					confirmed = true
				}
			}
		}
		rf.Confirmed = confirmed
		_, wasLocked := locked[o.Name]
		if !wasLocked && (o.Safety || o.Kind == "overflow" || o.Kind == "fconv" || o.Kind == "shift" || strings.HasSuffix(o.Kind, "/complete") || strings.HasPrefix(o.Kind, "pre:") || o.Kind == "unordered-iteration" || (o.Kind == "assert" && strings.Contains(o.Name, "/assert@recv"))) {
			// per-instruction obligations (bounds, nil, division, explicit
			// panic, overflow sweep) shift with every edit: they are locked
			// as a class for every function that has locked obligations
			for name := range locked {
				if strings.HasPrefix(name, o.Func+"/") {
					wasLocked = true
					break
				}
			}
			// a function under contract whose obligations were all
			// discharged syntactically on the reference tree has no
			// named entry; the signature table knows it
			if !wasLocked && len(locked) > 0 && v.lockSigs[o.Func] != nil {
				wasLocked = true
			}
		}
		os.MkdirAll(replayDir, 0o755)
		rpath := filepath.Join(replayDir, sanitize(o.Name)+".json")
		switch {
		case confirmed:
			rf.Verdict = "violation: counterexample confirmed on the real code"
			writeJSON(rpath, rf)
			out.violationLine = fmt.Sprintf("VIOLATION property=%s replay=%s", id, rpath)
		case o.Safety && replayRan && !confirmed:
			rf.Verdict = "undecided: the model's input does not make the real code fail (invariant too weak for this code)"
			writeJSON(rpath, rf)
			out.undecided = fmt.Sprintf("%s: %s; model not reproducible on the real code (%s)", o.Name, o.Status, rpath)
		case wasLocked:
			rf.Verdict = "violation: obligation was discharged on the reference tree and fails now; no failing input found"
			writeJSON(rpath, rf)
			out.violationLine = fmt.Sprintf("VIOLATION property=%s replay=%s no-failing-input-found", id, rpath)
		default:
			rf.Verdict = "undecided: obligation is not in obligations.lock"
			writeJSON(rpath, rf)
			out.undecided = fmt.Sprintf("%s: %s (%s) [%s]", o.Name, o.Status, o.Text, o.Pos)
		}
		return
	}
	{
		sem := make(chan struct{}, 6)
		var wg sync.WaitGroup
		for i, j := range jobs {
			wg.Add(1)
			sem <- struct{}{}
			go func(i int, j *failJob) {
				defer wg.Done()
				defer func() { <-sem }()
				outs[i] = judge(j)
			}(i, j)
		}
		wg.Wait()
	}
	for _, out := range outs {
		solverSeconds += out.seconds
		if out.handled {
			knownLines = append(knownLines, out.knownLine)
			restricted = append(restricted, out.restricted)
			discharged++
			bySolver[out.solver]++
			continue
		}
		if out.violationLine != "" {
			fmt.Println(out.violationLine)
			violations++
			exit = 1
		}
		if out.undecided != "" {
			undecided = append(undecided, out.undecided)
		}
	}
	coverSat, coverWeak, coverUnknown := 0, 0, 0
	coverUnsat := []string{}
	lockedCovers := lock.Covers[id]
	for _, cv := range covers {
		solverSeconds += cv.Seconds
		switch {
		case cv.Status == "sat" && cv.Phase == "B":
			coverSat++
		case cv.Status == "sat":
			coverWeak++
		case cv.Status == "unsat":
			coverUnsat = append(coverUnsat, cv.Name)
			if lockedCovers[cv.Name] == "sat" {
				undecided = append(undecided, fmt.Sprintf("%s: the obligation was reachable on the reference tree and is vacuous now (its guard contradicts the assumptions)", cv.Name))
			}
		default:
			coverUnknown++
		}
	}
	// vacuity of the whole run and missing locked named obligations
	if total == 0 {
		undecided = append(undecided, "no obligations were generated")
	}
	have := map[string]bool{}
	for _, o := range pr.obls {
		have[o.Name] = true
	}
	missing := 0
	for name := range locked {
		if strings.HasSuffix(name, "*") {
			continue
		}
		// frame obligations exist per kind of memory the function touches:
		// one that is not generated any more is a memory the code no longer
		// writes (nothing to prove), not a clause that went missing
		if strings.Contains(name, "/frame@") || strings.Contains(name, "/subtype-frame:") {
			continue
		}
		if k := strings.Index(name, "/"); k > 0 && gone[name[:k]] {
			continue
		}
		if !have[name] && isNamedKind(name) && !*writeLock {
			missing++
			undecided = append(undecided, "locked obligation no longer generated: "+name)
		}
	}
	for _, l := range knownLines {
		fmt.Println(l)
	}
	if len(undecided) > 0 && exit == 0 {
		exit = 2
	}
	for _, u := range undecided {
		fmt.Fprintf(os.Stderr, "UNDECIDED property=%s %s\n", id, u)
	}

	// evidence
	trusted := map[string]bool{}
	dropped := map[string]bool{}
	for _, r := range pr.results {
		if r.Ctx == nil {
			continue
		}
		for k := range r.Ctx.trusted {
			trusted[k] = true
		}
		for k := range r.Ctx.dropped {
			dropped[k] = true
		}
	}
	for g := range gone {
		dropped["contract without a function: "+g+" no longer exists in /repo (deleted or inlined into its callers); its obligations are void, its callers are proved against their own contracts"] = true
	}
	trusted["M3: go/ssa (x/tools v0.29.0) builds SSA that means what the Go spec says; z3 4.8.12 / z3 5.1.0 / cvc5 1.0 are sound; vcgen implements DESIGN §4"] = true
	trusted["A-NONNIL: nil-dereference panics are not checked unless a contract enables `option nilcheck`"] = true
	trusted["A-MACHINE: lengths and offsets of live strings/slices are in [0, 2^48)"] = true
	trusted["A-SLICE-VALUE: slices are modelled as immutable sequences (value semantics); element stores are only accepted into slices made in the same function"] = true
	var samples []interface{}
	for _, o := range pr.obls {
		if o.Kind == "vacuity" || len(samples) >= 6 {
			continue
		}
		if len(samples) < 3 || o.Kind == "post" || o.Kind == "lemma" {
			samples = append(samples, map[string]interface{}{"obligation": o.Name, "clause": o.Text, "position": o.Pos,
				"status": o.Status, "solver": o.Solver, "seconds": round3(o.Seconds), "smt_bytes": len(o.Script(false))})
		}
	}
	var perObl []map[string]interface{}
	for _, o := range pr.obls {
		perObl = append(perObl, map[string]interface{}{"name": o.Name, "kind": o.Kind, "status": o.Status, "solver": o.Solver, "seconds": round3(o.Seconds)})
	}
	sort.Strings(funcs)
	ev := map[string]interface{}{
		"property_id": id,
		"tier":        *tier,
		"seed":        seed,
		"level":       "proof",
		"coverage": map[string]interface{}{
			"obligations":              total,
			"discharged":               discharged,
			"checker_cmd":              fmt.Sprintf("/verif/bin/vcgen check --tier %s %s  (VC generation from go/ssa of /repo -tags verif; per obligation a race of z3-new, z3, cvc5; timeout %ds)", *tier, id, timeout),
			"trusted_base":             keys(trusted),
			"functions_under_contract": funcs,
			"vacuity_checks_sat":       vacuity,
			"discharged_by_backend":    bySolver,
			"solver_seconds":           round3(solverSeconds),
			"load_seconds":             round3(loadS),
			"samples":                  samples,
			"per_obligation":           perObl,
			"restricted_by_known_findings": restricted,
			"bounded_standins":         []string{},
			"undecided":                undecided,
			"translation_drops":        keys(dropped),
			"all_solvers_must_agree":   all,
			"reachability_covers": map[string]interface{}{"generated": len(covers), "sat": coverSat, "sat_without_quantified_assumptions_only": coverWeak,
				"inconclusive": coverUnknown, "unreachable": coverUnsat},
		},
		"assumptions": keys(trusted),
		"wall_s":      round3(time.Since(start).Seconds()),
		"violations":  violations,
	}
	if !*noEvidence {
		os.MkdirAll(filepath.Join(*root, "evidence"), 0o755)
		writeJSON(filepath.Join(*root, "evidence", id+".json"), ev)
	}
	if *writeLock {
		if exit != 0 {
			fmt.Fprintln(os.Stderr, "refusing to write the lock: the check did not pass")
		} else {
			m := map[string]string{}
			for _, o := range pr.obls {
				if o.Kind == "vacuity" {
					continue
				}
				if o.Safety {
					m[o.Func+"/"+o.Kind+"*"] = "class"
				}
				if okStatus(o) {
					m[o.Name] = o.Status
				}
			}
			lock.Obligations[id] = m
			if lock.Sigs == nil {
				lock.Sigs = map[string]*FuncSig{}
			}
			for fnName, sg := range v.sigs {
				lock.Sigs[fnName] = sg
			}
			lock.Structs = v.moduleStructs()
			lock.Funcs = v.moduleFuncTable()
			if *tier == "thorough" {
				cm := map[string]string{}
				for _, cv := range covers {
					if cv.Status == "sat" {
						cm[cv.Name] = "sat"
					}
				}
				lock.Covers[id] = cm
			}
			writeJSON(filepath.Join(*root, "obligations.lock"), lock)
		}
	}
	fmt.Printf("property=%s tier=%s obligations=%d discharged=%d violations=%d undecided=%d wall=%.1fs\n",
		id, *tier, total, discharged, violations, len(undecided), time.Since(start).Seconds())
	return exit
}

func collectLens(v Val, out *[]Term) {
	switch v.K {
	case KSlice:
		*out = append(*out, app("bvsle", v.Len, bvLit(64, 24)), eq(v.Off, bvLit(64, 0)))
	case KStruct, KTuple:
		for _, f := range v.Fields {
			collectLens(f, out)
		}
	}
}

// propListed: the finding's property field is one id or a comma-separated list.
func propListed(list, id string) bool {
	for _, p := range strings.Split(list, ",") {
		if strings.TrimSpace(p) == id {
			return true
		}
	}
	return false
}

func isNamedKind(name string) bool {
	for _, k := range []string{"/post", "/frame", "/inv-", "lemma/", "/decreases", "structural/", "/step", "/subtype", "/sink@"} {
		if strings.Contains(name, k) {
			return true
		}
	}
	return false
}

func truncate(s string, n int) string {
	if len(s) > n {
		return s[:n] + "…"
	}
	return s
}

func round3(f float64) float64 { return float64(int(f*1000+0.5)) / 1000 }

func keys(m map[string]bool) []string {
	out := []string{}
	for k := range m {
		out = append(out, k)
	}
	sort.Strings(out)
	return out
}

func writeJSON(path string, v interface{}) {
	data, _ := json.MarshalIndent(v, "", " ")
	os.WriteFile(path, append(data, '\n'), 0o644)
}

func replayMain(repo, path string) int {
	data, err := os.ReadFile(path)
	if err != nil {
		fmt.Fprintln(os.Stderr, err)
		return 2
	}
	var rf ReplayFile
	if err := json.Unmarshal(data, &rf); err != nil {
		fmt.Fprintln(os.Stderr, err)
		return 2
	}
	fmt.Printf("obligation: %s\nclause:     %s\nverdict:    %s\n", rf.Obligation, rf.Text, rf.Verdict)
	if rf.TestSource == "" {
		fmt.Println("no executable counterexample is attached (no-failing-input-found); solver output:")
		fmt.Println(rf.SolverOut)
		return 1
	}
	observed, pmsg, done, raw := RunReplay(repo, rf.PkgDir, rf.TestSource)
	fmt.Printf("predicted: %v\nobserved:  %v\npanic:     %s\ndone: %v\n", rf.Predicted, observed, pmsg, done)
	same := pmsg == rf.Panic
	for k, pv := range rf.Predicted {
		if observed[k] != pv {
			same = false
		}
	}
	if same {
		fmt.Println("REPRODUCED on the current tree")
		return 1
	}
	fmt.Println("not reproduced on the current tree")
	fmt.Println(truncate(raw, 2000))
	return 0
}

// lockStructs: field lists of the module's struct types on the reference tree
// (from obligations.lock); used to follow a renamed field (eval.go fieldAlias).
var lockStructs map[string][]string

func structFields(st *types.Struct) []string {
	out := make([]string, st.NumFields())
	for i := 0; i < st.NumFields(); i++ {
		out[i] = st.Field(i).Name() + " " + types.TypeString(st.Field(i).Type(), nil)
	}
	return out
}

func (v *Verifier) moduleStructs() map[string][]string {
	out := map[string][]string{}
	for path, sp := range v.spkgs {
		if sp == nil || sp.Pkg == nil || !inModule(sp.Pkg) {
			continue
		}
		sc := sp.Pkg.Scope()
		for _, n := range sc.Names() {
			tn, ok := sc.Lookup(n).(*types.TypeName)
			if !ok {
				continue
			}
			if st, ok := tn.Type().Underlying().(*types.Struct); ok {
				out[path+"."+n] = structFields(st)
			}
		}
	}
	return out
}
