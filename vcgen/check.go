package main

func checkMain(args []string) int { return 2 }
