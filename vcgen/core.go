package main

// core.go — SMT term construction, Go value representation, memory model.
//
// Memory model (DESIGN §4.4, refined): addresses are SMT Ints. A field of a
// struct stored at address a lives at the address fa_<T>_<f>(a), where fa_* are
// uninterpreted functions made injective and pairwise range-disjoint by ground
// axioms (an inverse `fbase` and a tag `ftag`) that are emitted for every
// fa-term that is built. There is one memory array per non-struct Go type and
// leaf: M<type,leaf> : Int -> leafSort. Go's type safety is what makes
// per-type memories sound.

import (
	"fmt"
	"go/types"
	"sort"
	"strings"
)

type Term = string

const (
	SBool  = "Bool"
	SRef   = "Int"
	SIface = "Iface"
	SF64   = "Float64"
	SKey   = "StrKey"
)

func bvSort(w int) string { return fmt.Sprintf("(_ BitVec %d)", w) }
func arrSort(idx, el string) string {
	return fmt.Sprintf("(Array %s %s)", idx, el)
}

type Kind int

const (
	KBool Kind = iota
	KBV
	KF64
	KRef   // pointer, map, chan, func
	KIface // interface value
	KSlice // slice or string: Arr (one array term per leaf of elem), Off, Len
	KStruct
	KTuple
	KInt // mathematical integer (spec only)
	KKey // abstract string key
)

type Val struct {
	K      Kind
	Typ    types.Type // Go type when known
	T      Term       // scalar term
	W      int        // bit width for KBV
	Signed bool
	Fields []Val // struct / tuple
	Arr    []Term
	Off    Term
	Len    Term
	Elem   types.Type // element type for KSlice
	EP      *elemPtr  // pointer to a slice/array element (not a first-class address)
	ArrBack *arrBack  // slice that aliases a whole byte array in memory
}

func (v Val) String() string {
	switch v.K {
	case KStruct, KTuple:
		var p []string
		for _, f := range v.Fields {
			p = append(p, f.String())
		}
		return "{" + strings.Join(p, ", ") + "}"
	case KSlice:
		return fmt.Sprintf("slice(%v,%s,%s)", v.Arr, v.Off, v.Len)
	}
	return v.T
}

// Ctx accumulates declarations and assumptions in order; an obligation
// records the prefix lengths that were current when it was generated.
type Ctx struct {
	lines   []string // declarations, definitions and (assert ...) in order
	n       int
	faSeen  map[string]bool
	faIDs   map[string]int
	faDecl  map[string]bool
	memDecl map[string]bool
	typeIDs map[string]int
	funDecl map[string]bool
	trusted map[string]bool // names of assumptions actually used
	dropped map[string]bool // constructs abstracted
	specs   map[string]*SpecFn
	hasFP   bool
	hasQ    bool
	ifaceTags map[string]int
	globals []string
	bound   map[string]bool // names of quantifier-bound variables
	qinst   map[string][]*qTemplate // quantified assumptions indexed by the array they read
	qdone   map[string]bool
	defOf   map[string]string // define-fun name -> its term
	alias   map[string]string // contract-level name on the reference tree -> current source name
	ms      map[string]string      // memory keys of this context (installed as memSorts)
	mt      map[string]types.Type  // their Go types (installed as memTypes)
	axiomLine map[int]bool // indices of lines that are global axioms (included in a query only when relevant)
	pending []Term // definitional facts to be asserted (they may mention bound variables' skolems)
}

func NewCtx() *Ctx {
	c := &Ctx{
		faSeen: map[string]bool{}, faIDs: map[string]int{}, faDecl: map[string]bool{},
		memDecl: map[string]bool{}, typeIDs: map[string]int{}, funDecl: map[string]bool{},
		trusted: map[string]bool{}, dropped: map[string]bool{}, ifaceTags: map[string]int{}, axiomLine: map[int]bool{},
		bound: map[string]bool{}, qinst: map[string][]*qTemplate{}, qdone: map[string]bool{}, defOf: map[string]string{},
	}
	// the memory-key tables and the epoch counter belong to one generation
	// context (scripts must not depend on which functions were verified before)
	c.ms, c.mt = map[string]string{}, map[string]types.Type{}
	useCtx(c)
	epochCounter = 0
	c.lines = append(c.lines,
		"(declare-sort Iface 0)",
		"(declare-sort StrKey 0)",
		"(declare-fun ftag (Int) Int)",
		"(declare-fun froot (Int) Int)",
		"(declare-fun isfresh (Int) Bool)",
		"(assert (= (ftag 0) 0))",
		"(declare-fun itag (Iface) Int)",
		"(declare-fun iref (Iface) Int)",
		"(declare-const inil Iface)",
		"(assert (= (itag inil) 0))",
		"(declare-fun mkiface (Int Int) Iface)",
		"(declare-fun strkey ((Array (_ BitVec 64) (_ BitVec 8)) (_ BitVec 64) (_ BitVec 64)) StrKey)",
	)
	return c
}

func (c *Ctx) emit(s string) { c.lines = append(c.lines, s) }
func (c *Ctx) mark() int {
	c.flush()
	return len(c.lines)
}

// flush asserts pending definitional facts that are closed terms.
func (c *Ctx) flush() {
	p := c.pending
	c.pending = nil
	for _, t := range p {
		if strings.Contains(t, "q_") {
			// mentions a bound variable of an enclosing quantifier: the
			// definition cannot be stated at top level; drop it (the
			// predicate stays uninterpreted for that application: sound).
			continue
		}
		c.lines = append(c.lines, "(assert "+t+")")
	}
}

func (c *Ctx) fresh(hint string) string {
	c.n++
	return fmt.Sprintf("%s!%d", sanitize(hint), c.n)
}

func sanitize(s string) string {
	var b strings.Builder
	for _, r := range s {
		switch {
		case r >= 'a' && r <= 'z', r >= 'A' && r <= 'Z', r >= '0' && r <= '9', r == '_', r == '.', r == '$':
			b.WriteRune(r)
		default:
			b.WriteByte('_')
		}
	}
	return b.String()
}

func (c *Ctx) declConst(name, sort string) Term {
	c.emit(fmt.Sprintf("(declare-const %s %s)", name, sort))
	return name
}

// define gives a name to a term (define-fun is expanded by the solver).
func (c *Ctx) define(hint, sort string, t Term) Term {
	if len(t) < 40 && !strings.Contains(t, " ") {
		return t
	}
	if strings.HasPrefix(t, "(|fa ") {
		return t // keep addresses structural: reads are resolved syntactically
	}
	n := c.fresh(hint)
	c.emit(fmt.Sprintf("(define-fun %s () %s %s)", n, sort, t))
	c.defOf[n] = t
	return n
}

// canonArr expands a defined name to the term it abbreviates, so that a
// quantified assumption and a later read agree on the key of the array.
func (c *Ctx) canonArr(a Term) Term {
	for i := 0; i < 8; i++ {
		d, ok := c.defOf[a]
		if !ok {
			break
		}
		a = d
	}
	return a
}

func (c *Ctx) assume(t Term) {
	if t == "true" {
		return
	}
	c.emit("(assert " + t + ")")
	if strings.Contains(t, "(forall ") {
		c.registerQuant(t)
	}
}

// qTemplate: an assumed formula  guards => forall v:BV64. body  whose body reads
// array arr at index v or off+v. When code or a contract later reads arr at a
// ground index i, the instance body[v:=i] is asserted (generation-time
// instantiation: the solvers' E-matching does not see through bit-vector
// index arithmetic).
type qTemplate struct {
	guards []string
	v      string
	body   []string // tokens
}

func (c *Ctx) registerQuant(t Term) {
	toks := sexprTokens(t)
	var walk func(ts []string, guards []string)
	walk = func(ts []string, guards []string) {
		if len(ts) < 3 || ts[0] != "(" {
			return
		}
		switch ts[1] {
		case "=>":
			// ( => G X )
			gEnd := 2
			if ts[2] == "(" {
				gEnd = matchParen(ts, 2)
			}
			g := joinSexpr(ts[2 : gEnd+1])
			walk(ts[gEnd+1:len(ts)-1], append(append([]string{}, guards...), g))
		case "and":
			i := 2
			for i < len(ts)-1 {
				e := i
				if ts[i] == "(" {
					e = matchParen(ts, i)
				}
				walk(ts[i:e+1], guards)
				i = e + 1
			}
		case "!":
			e := 2
			if ts[2] == "(" {
				e = matchParen(ts, 2)
			}
			walk(ts[2:e+1], guards)
		case "forall":
			bEnd := matchParen(ts, 2)
			b := ts[3:bEnd]
			if len(b) != 8 || b[3] != "_" || b[4] != "BitVec" || b[5] != "64" {
				return
			}
			v := b[1]
			body := ts[bEnd+1 : len(ts)-1]
			if len(body) > 2 && body[0] == "(" && body[1] == "!" {
				e := 2
				if body[2] == "(" {
					e = matchParen(body, 2)
				}
				body = body[2 : e+1]
			}
			// arrays read at v or (bvadd X v)
			for i := 0; i+2 < len(body); i++ {
				if body[i] == "(" && body[i+1] == "select" {
					aS := i + 2
					aE := aS
					if body[aS] == "(" {
						aE = matchParen(body, aS)
					}
					idx := body[aE+1:]
					direct := idx[0] == v
					viaAdd := len(idx) > 3 && idx[0] == "(" && idx[1] == "bvadd" && (func() bool {
						// the bound variable occurs in the (additive) index term
						e := matchParen(idx, 0)
						for _, tk := range idx[:e] {
							if tk == v {
								return true
							}
						}
						return false
					})()
					if direct || viaAdd {
						arr := c.canonArr(joinSexpr(body[aS : aE+1]))
						tpl := &qTemplate{guards: guards, v: v, body: body}
						c.qinst[arr] = append(c.qinst[arr], tpl)
					}
				}
			}
		}
	}
	walk(toks, nil)
}

// instantiateAt emits the instances of the registered quantified assumptions
// that read array arr, for the ground index term idx.
func (c *Ctx) instantiateAt(arr Term, idx Term) {
	tpls := c.qinst[c.canonArr(arr)]
	if len(tpls) == 0 {
		return
	}
	for _, t := range sexprTokens(idx) {
		if c.bound[t] {
			return // not a ground term
		}
	}
	for _, tpl := range tpls {
		key := fmt.Sprintf("%p|%s", tpl, idx)
		if c.qdone[key] {
			continue
		}
		c.qdone[key] = true
		out := make([]string, len(tpl.body))
		for i, t := range tpl.body {
			if t == tpl.v {
				out[i] = idx
			} else {
				out[i] = t
			}
		}
		inst := joinSexpr(out)
		for i := len(tpl.guards) - 1; i >= 0; i-- {
			inst = "(=> " + tpl.guards[i] + " " + inst + ")"
		}
		c.pending = append(c.pending, inst)
	}
}

func (c *Ctx) declFun(name string, args []string, ret string) {
	if c.funDecl[name] {
		return
	}
	c.funDecl[name] = true
	c.emit(fmt.Sprintf("(declare-fun %s (%s) %s)", name, strings.Join(args, " "), ret))
}

// ---------------------------------------------------------------- terms

func and(ts ...Term) Term {
	var out []Term
	for _, t := range ts {
		if t == "true" {
			continue
		}
		if t == "false" {
			return "false"
		}
		out = append(out, t)
	}
	switch len(out) {
	case 0:
		return "true"
	case 1:
		return out[0]
	}
	return "(and " + strings.Join(out, " ") + ")"
}

func or(ts ...Term) Term {
	var out []Term
	for _, t := range ts {
		if t == "false" {
			continue
		}
		if t == "true" {
			return "true"
		}
		out = append(out, t)
	}
	switch len(out) {
	case 0:
		return "false"
	case 1:
		return out[0]
	}
	return "(or " + strings.Join(out, " ") + ")"
}

func not(t Term) Term {
	switch t {
	case "true":
		return "false"
	case "false":
		return "true"
	}
	if strings.HasPrefix(t, "(not ") {
		return t[5 : len(t)-1]
	}
	return "(not " + t + ")"
}

func imp(a, b Term) Term {
	if a == "true" {
		return b
	}
	if a == "false" || b == "true" {
		return "true"
	}
	return "(=> " + a + " " + b + ")"
}

func eq(a, b Term) Term {
	if a == b {
		return "true"
	}
	return "(= " + a + " " + b + ")"
}
func iteT(c, a, b Term) Term {
	if c == "true" {
		return a
	}
	if c == "false" {
		return b
	}
	if a == b {
		return a
	}
	return "(ite " + c + " " + a + " " + b + ")"
}

func bvLit(w int, v uint64) Term {
	if w%4 == 0 && w <= 64 {
		return fmt.Sprintf("#x%0*x", w/4, v)
	}
	return fmt.Sprintf("(_ bv%d %d)", v, w)
}

func bvLitBig(w int, dec string) Term { return fmt.Sprintf("(_ bv%s %d)", dec, w) }

func app(f string, args ...Term) Term { return "(" + f + " " + strings.Join(args, " ") + ")" }

// ---------------------------------------------------------------- values

func boolVal(t Term) Val { return Val{K: KBool, T: t, Typ: types.Typ[types.Bool]} }
func bvVal(t Term, w int, signed bool, typ types.Type) Val {
	return Val{K: KBV, T: t, W: w, Signed: signed, Typ: typ}
}
func refVal(t Term, typ types.Type) Val { return Val{K: KRef, T: t, Typ: typ} }

var sizes64 = types.SizesFor("gc", "amd64")

func basicBV(b *types.Basic) (w int, signed bool, ok bool) {
	switch b.Kind() {
	case types.Int8:
		return 8, true, true
	case types.Int16:
		return 16, true, true
	case types.Int32, types.UntypedRune:
		return 32, true, true
	case types.Int64, types.Int, types.UntypedInt:
		return 64, true, true
	case types.Uint8:
		return 8, false, true
	case types.Uint16:
		return 16, false, true
	case types.Uint32:
		return 32, false, true
	case types.Uint64, types.Uint, types.Uintptr:
		return 64, false, true
	}
	return 0, false, false
}

// shape describes how a Go type is flattened into SMT leaves.
type leaf struct {
	sort string
}

func (c *Ctx) leafSorts(t types.Type) []string {
	switch u := t.Underlying().(type) {
	case *types.Basic:
		if u.Info()&types.IsBoolean != 0 {
			return []string{SBool}
		}
		if w, _, ok := basicBV(u); ok {
			return []string{bvSort(w)}
		}
		if u.Kind() == types.Float64 || u.Kind() == types.UntypedFloat {
			c.hasFP = true
			return []string{SF64}
		}
		if u.Info()&types.IsString != 0 {
			return []string{arrSort(bvSort(64), bvSort(8)), bvSort(64), bvSort(64)}
		}
		if u.Kind() == types.UnsafePointer || u.Kind() == types.UntypedNil {
			return []string{SRef}
		}
	case *types.Pointer, *types.Map, *types.Chan, *types.Signature:
		return []string{SRef}
	case *types.Interface:
		return []string{SIface}
	case *types.Slice:
		var out []string
		for _, s := range c.leafSorts(u.Elem()) {
			out = append(out, arrSort(bvSort(64), s))
		}
		return append(out, bvSort(64), bvSort(64))
	case *types.Struct:
		var out []string
		for i := 0; i < u.NumFields(); i++ {
			out = append(out, c.leafSorts(u.Field(i).Type())...)
		}
		return out
	case *types.Array:
		if isByte(u.Elem()) && u.Len() <= 64 {
			return []string{bvSort(int(8 * u.Len()))}
		}
		var out []string
		for i := int64(0); i < u.Len(); i++ {
			out = append(out, c.leafSorts(u.Elem())...)
		}
		return out
	case *types.Tuple:
		var out []string
		for i := 0; i < u.Len(); i++ {
			out = append(out, c.leafSorts(u.At(i).Type())...)
		}
		return out
	}
	panic(fmt.Sprintf("leafSorts: unsupported type %s (%T)", t, t.Underlying()))
}

func isByte(t types.Type) bool {
	b, ok := t.Underlying().(*types.Basic)
	return ok && b.Kind() == types.Uint8
}

func isString(t types.Type) bool {
	b, ok := t.Underlying().(*types.Basic)
	return ok && b.Info()&types.IsString != 0
}

// build constructs a Val of Go type t from a flat list of leaf terms.
func (c *Ctx) build(t types.Type, ls []Term) (Val, []Term) {
	switch u := t.Underlying().(type) {
	case *types.Basic:
		if u.Info()&types.IsBoolean != 0 {
			return Val{K: KBool, T: ls[0], Typ: t}, ls[1:]
		}
		if w, s, ok := basicBV(u); ok {
			return Val{K: KBV, T: ls[0], W: w, Signed: s, Typ: t}, ls[1:]
		}
		if u.Kind() == types.Float64 || u.Kind() == types.UntypedFloat {
			return Val{K: KF64, T: ls[0], Typ: t}, ls[1:]
		}
		if u.Info()&types.IsString != 0 {
			return Val{K: KSlice, Typ: t, Arr: []Term{ls[0]}, Off: ls[1], Len: ls[2], Elem: types.Typ[types.Uint8]}, ls[3:]
		}
		return Val{K: KRef, T: ls[0], Typ: t}, ls[1:]
	case *types.Pointer, *types.Map, *types.Chan, *types.Signature:
		return Val{K: KRef, T: ls[0], Typ: t}, ls[1:]
	case *types.Interface:
		return Val{K: KIface, T: ls[0], Typ: t}, ls[1:]
	case *types.Slice:
		n := len(c.leafSorts(u.Elem()))
		return Val{K: KSlice, Typ: t, Arr: append([]Term{}, ls[:n]...), Off: ls[n], Len: ls[n+1], Elem: u.Elem()}, ls[n+2:]
	case *types.Struct:
		v := Val{K: KStruct, Typ: t}
		for i := 0; i < u.NumFields(); i++ {
			var f Val
			f, ls = c.build(u.Field(i).Type(), ls)
			v.Fields = append(v.Fields, f)
		}
		return v, ls
	case *types.Array:
		if isByte(u.Elem()) && u.Len() <= 64 {
			return Val{K: KBV, T: ls[0], W: int(8 * u.Len()), Typ: t}, ls[1:]
		}
		v := Val{K: KStruct, Typ: t}
		for i := int64(0); i < u.Len(); i++ {
			var f Val
			f, ls = c.build(u.Elem(), ls)
			v.Fields = append(v.Fields, f)
		}
		return v, ls
	case *types.Tuple:
		v := Val{K: KTuple, Typ: t}
		for i := 0; i < u.Len(); i++ {
			var f Val
			f, ls = c.build(u.At(i).Type(), ls)
			v.Fields = append(v.Fields, f)
		}
		return v, ls
	}
	panic(fmt.Sprintf("build: unsupported type %s", t))
}

func leaves(v Val) []Term {
	switch v.K {
	case KStruct, KTuple:
		var out []Term
		for _, f := range v.Fields {
			out = append(out, leaves(f)...)
		}
		return out
	case KSlice:
		out := append([]Term{}, v.Arr...)
		return append(out, v.Off, v.Len)
	}
	return []Term{v.T}
}

func (c *Ctx) freshVal(t types.Type, hint string) Val {
	sorts := c.leafSorts(t)
	ls := make([]Term, len(sorts))
	for i, s := range sorts {
		ls[i] = c.declConst(c.fresh(hint), s)
	}
	v, _ := c.build(t, ls)
	return v
}

// nameVal defines names for all leaves of v (keeps scripts small).
func (c *Ctx) nameVal(v Val, hint string) Val {
	if v.Typ == nil {
		return v
	}
	sorts := c.leafSorts(v.Typ)
	ls := leaves(v)
	if len(ls) != len(sorts) {
		return v
	}
	for i := range ls {
		ls[i] = c.define(hint, sorts[i], ls[i])
	}
	nv, _ := c.build(v.Typ, ls)
	return nv
}

func (c *Ctx) iteVal(cond Term, a, b Val) Val {
	la, lb := leaves(a), leaves(b)
	if len(la) != len(lb) {
		panic(fmt.Sprintf("iteVal: shape mismatch %v / %v", a, b))
	}
	out := make([]Term, len(la))
	for i := range la {
		out[i] = iteT(cond, la[i], lb[i])
	}
	t := a.Typ
	if t == nil {
		t = b.Typ
	}
	if t == nil {
		r := a
		r.T = out[0]
		return r
	}
	v, _ := c.build(t, out)
	return v
}

func (c *Ctx) zeroVal(t types.Type) Val {
	sorts := c.leafSorts(t)
	ls := make([]Term, len(sorts))
	for i, s := range sorts {
		ls[i] = c.zeroOfSort(s)
	}
	v, _ := c.build(t, ls)
	return v
}

func (c *Ctx) zeroOfSort(s string) Term {
	switch {
	case s == SBool:
		return "false"
	case s == SRef:
		return "0"
	case s == SIface:
		return "inil"
	case s == SF64:
		return "(_ +zero 11 53)"
	case strings.HasPrefix(s, "(_ BitVec "):
		var w int
		fmt.Sscanf(s, "(_ BitVec %d)", &w)
		return bvLit(w, 0)
	case strings.HasPrefix(s, "(Array "):
		// arbitrary array: contents of a zero-length slice are irrelevant
		n := "zarr_" + sanitize(s)
		if !c.funDecl[n] {
			c.funDecl[n] = true
			c.emit(fmt.Sprintf("(declare-const %s %s)", n, s))
		}
		return n
	}
	panic("zeroOfSort " + s)
}

// ---------------------------------------------------------------- memory

// MemState is one symbolic memory: explicit array terms for the keys written
// since the last havoc-all, and an epoch that names the (lazily declared)
// arrays of every other key.
type MemState struct {
	m     map[string]Term
	epoch int
	// w[key]: the writes made to ms.m[key] on top of w-base, newest last;
	// used to resolve reads syntactically (select-over-store) at generation
	// time. Valid only while ms.m[key] == wtop[key].
	w    map[string][]memWrite
	wtop map[string]Term
}

type memWrite struct {
	addr, val Term
	below     Term // the array term under this write
}

func NewMem() *MemState {
	return &MemState{m: map[string]Term{}, w: map[string][]memWrite{}, wtop: map[string]Term{}}
}

func (ms *MemState) clone() *MemState {
	n := &MemState{m: make(map[string]Term, len(ms.m)), epoch: ms.epoch, w: map[string][]memWrite{}, wtop: map[string]Term{}}
	for k, v := range ms.m {
		n.m[k] = v
	}
	for k, v := range ms.w {
		n.w[k] = append([]memWrite{}, v...)
	}
	for k, v := range ms.wtop {
		n.wtop[k] = v
	}
	return n
}

// addrDistinct: syntactic proof that two address terms differ.
func addrDistinct(a, b Term) bool {
	ha, hb := faHead(a), faHead(b)
	if ha != "" && hb != "" {
		if ha != hb {
			return true
		}
		// same field of two objects: distinct iff the objects are (injectivity)
		return addrDistinct(a[len(ha)+2:len(a)-1], b[len(hb)+2:len(b)-1])
	}
	if ha == "" && hb == "" && a != b {
		isAlloc := func(t Term) bool {
			return !strings.Contains(t, " ") && (strings.Contains(t, "alloc_") || strings.HasPrefix(t, "|glob "))
		}
		// distinct allocation sites are asserted totally ordered, hence distinct
		if isAlloc(a) && isAlloc(b) {
			return true
		}
	}
	isRoot := func(t Term) bool {
		return strings.HasPrefix(t, "alloc_") || strings.HasPrefix(t, "|glob ") || strings.Contains(t, "alloc_") && !strings.Contains(t, " ")
	}
	if (ha != "" && isRoot(b)) || (hb != "" && isRoot(a)) {
		return true
	}
	return false
}

func faHead(t Term) string {
	if strings.HasPrefix(t, "(|fa ") {
		if j := strings.Index(t[1:], "| "); j >= 0 {
			return t[1 : j+2]
		}
	}
	return ""
}

// readCell resolves select(ms.m[key], addr) through the recorded writes.
func (c *Ctx) readCell(ms *MemState, key string, arr Term, addr Term) Term {
	if ms.wtop[key] == arr {
		ws := ms.w[key]
		for i := len(ws) - 1; i >= 0; i-- {
			if ws[i].addr == addr {
				return ws[i].val
			}
			if !addrDistinct(ws[i].addr, addr) {
				if i == len(ws)-1 {
					return app("select", arr, addr)
				}
				return app("select", ws[i+1].below, addr)
			}
		}
		if len(ws) > 0 {
			return app("select", ws[0].below, addr)
		}
	}
	return app("select", arr, addr)
}

var memSorts = map[string]string{}
var memTypes = map[string]types.Type{}

// useCtx installs the memory-key tables of a context (generation is
// sequential; terms are evaluated in an older context only when a known
// finding's region is judged).
func useCtx(c *Ctx) {
	if c != nil && c.ms != nil {
		memSorts, memTypes = c.ms, c.mt
	}
}

var typeKeyRepl = strings.NewReplacer("\\", "/", "|", "!")

func typeKey(t types.Type) string { return typeKeyRepl.Replace(types.TypeString(t, nil)) }

func (c *Ctx) memName(t types.Type, leaf int) string {
	return fmt.Sprintf("M %s #%d", typeKey(t), leaf)
}

func (c *Ctx) baseName(k string, epoch int) string {
	n := "|" + k + "|"
	if epoch != 0 {
		n = fmt.Sprintf("|%s @%d|", k, epoch)
	}
	if !c.memDecl[n] {
		c.memDecl[n] = true
		c.emit(fmt.Sprintf("(declare-const %s %s)", n, memSorts[k]))
	}
	return n
}

func (c *Ctx) memRaw(ms *MemState, k string) Term {
	if v, ok := ms.m[k]; ok {
		return v
	}
	return c.baseName(k, ms.epoch)
}

func (c *Ctx) memGet(ms *MemState, t types.Type, leaf int, sort string) Term {
	k := c.memName(t, leaf)
	if _, ok := memSorts[k]; !ok {
		memSorts[k] = arrSort(SRef, sort)
		memTypes[k] = t
	}
	return c.memRaw(ms, k)
}

var epochCounter int

// havocAll forgets everything about memory.
func (c *Ctx) havocAll(ms *MemState) {
	epochCounter++
	ms.epoch = epochCounter
	keep := map[string]Term{}
	for k, v := range ms.m {
		if strings.HasPrefix(k, "Mghost ") {
			keep[k] = v // ghost counters are not memory: callees cannot change them
		}
	}
	ms.m = keep
	ms.w = map[string][]memWrite{}
	ms.wtop = map[string]Term{}
}

func (c *Ctx) fieldAddr(base Term, st types.Type, idx int) Term {
	name := fmt.Sprintf("|fa %s.%d|", typeKey(st), idx)
	inv := fmt.Sprintf("|fb %s.%d|", typeKey(st), idx)
	if !c.faDecl[name] {
		c.faDecl[name] = true
		c.faIDs[name] = len(c.faIDs) + 1
		c.emit(fmt.Sprintf("(declare-fun %s (Int) Int)", name))
		c.emit(fmt.Sprintf("(declare-fun %s (Int) Int)", inv))
	}
	t := app(name, base)
	if !c.faSeen[t] && !c.hasBound(base) {
		c.faSeen[t] = true
		// injectivity via inverse, disjoint ranges via tag, root object; all ground.
		c.emit(fmt.Sprintf("(assert (= (%s %s) %s))", inv, t, base))
		c.emit(fmt.Sprintf("(assert (= (ftag %s) %d))", t, c.faIDs[name]))
		c.emit(fmt.Sprintf("(assert (= (froot %s) (froot %s)))", t, base))
	}
	return t
}

// hasBound: the term mentions a variable bound by an enclosing quantifier.
func (c *Ctx) hasBound(t Term) bool {
	if len(c.bound) == 0 || !strings.Contains(t, "!") {
		return false
	}
	for _, tok := range sexprTokens(t) {
		if c.bound[tok] {
			return true
		}
	}
	return false
}

func isStructLike(t types.Type) bool {
	switch u := t.Underlying().(type) {
	case *types.Struct:
		return true
	case *types.Array:
		return !(isByte(u.Elem()) && u.Len() <= 64)
	}
	return false
}

func (c *Ctx) load(ms *MemState, addr Term, t types.Type) Val {
	switch u := t.Underlying().(type) {
	case *types.Struct:
		v := Val{K: KStruct, Typ: t}
		for i := 0; i < u.NumFields(); i++ {
			v.Fields = append(v.Fields, c.load(ms, c.fieldAddr(addr, t, i), u.Field(i).Type()))
		}
		return v
	case *types.Array:
		if !(isByte(u.Elem()) && u.Len() <= 64) {
			v := Val{K: KStruct, Typ: t}
			for i := 0; i < int(u.Len()); i++ {
				v.Fields = append(v.Fields, c.load(ms, c.fieldAddr(addr, t, i), u.Elem()))
			}
			return v
		}
	}
	sorts := c.leafSorts(t)
	ls := make([]Term, len(sorts))
	for i, s := range sorts {
		ls[i] = c.readCell(ms, c.memName(t, i), c.memGet(ms, t, i, s), addr)
	}
	v, _ := c.build(t, ls)
	return v
}

func (c *Ctx) store(ms *MemState, addr Term, t types.Type, v Val) {
	switch u := t.Underlying().(type) {
	case *types.Struct:
		for i := 0; i < u.NumFields(); i++ {
			c.store(ms, c.fieldAddr(addr, t, i), u.Field(i).Type(), v.Fields[i])
		}
		return
	case *types.Array:
		if !(isByte(u.Elem()) && u.Len() <= 64) {
			for i := 0; i < int(u.Len()); i++ {
				c.store(ms, c.fieldAddr(addr, t, i), u.Elem(), v.Fields[i])
			}
			return
		}
	}
	sorts := c.leafSorts(t)
	ls := leaves(v)
	if len(ls) != len(sorts) {
		panic(fmt.Sprintf("store: shape mismatch for %s: %d leaves vs %d", t, len(ls), len(sorts)))
	}
	for i, s := range sorts {
		old := c.memGet(ms, t, i, s)
		nt := app("store", old, addr, ls[i])
		k := c.memName(t, i)
		nn := c.define("mem", arrSort(SRef, s), nt)
		if ms.wtop[k] != old {
			ms.w[k] = nil
		}
		ms.w[k] = append(ms.w[k], memWrite{addr: addr, val: ls[i], below: old})
		ms.wtop[k] = nn
		ms.m[k] = nn
	}
}

// cells enumerates (type, address) of every non-struct cell of a value of
// type t stored at addr.
type cell struct {
	t    types.Type
	addr Term
}

func (c *Ctx) cells(addr Term, t types.Type) []cell {
	switch u := t.Underlying().(type) {
	case *types.Struct:
		var out []cell
		for i := 0; i < u.NumFields(); i++ {
			out = append(out, c.cells(c.fieldAddr(addr, t, i), u.Field(i).Type())...)
		}
		return out
	case *types.Array:
		if !(isByte(u.Elem()) && u.Len() <= 64) {
			var out []cell
			for i := 0; i < int(u.Len()); i++ {
				out = append(out, c.cells(c.fieldAddr(addr, t, i), u.Elem())...)
			}
			return out
		}
	}
	return []cell{{t, addr}}
}

// havocCell replaces the content of one cell by a fresh value.
func (c *Ctx) havocCell(ms *MemState, cl cell, hint string) {
	c.store(ms, cl.addr, cl.t, c.freshVal(cl.t, hint))
}

// havocKey replaces one whole memory array by a fresh one.
func (c *Ctx) havocKey(ms *MemState, k string) {
	n := c.fresh("hmem")
	c.emit(fmt.Sprintf("(declare-const %s %s)", n, memSorts[k]))
	ms.m[k] = n
}

// mergeMem builds the memory at a join point.
func (c *Ctx) mergeMem(conds []Term, mems []*MemState) *MemState {
	if len(mems) == 1 {
		return mems[0].clone()
	}
	sameEpoch := true
	for _, m := range mems[1:] {
		if m.epoch != mems[0].epoch {
			sameEpoch = false
		}
	}
	keys := map[string]bool{}
	for _, m := range mems {
		for k := range m.m {
			keys[k] = true
		}
	}
	out := NewMem()
	out.epoch = mems[0].epoch
	if !sameEpoch {
		// every key known so far gets an explicit merged array; keys first
		// read later resolve to a fresh epoch (sound over-approximation).
		for k := range memSorts {
			keys[k] = true
		}
		epochCounter++
		out.epoch = epochCounter
	}
	var ks []string
	for k := range keys {
		ks = append(ks, k)
	}
	sort.Strings(ks)
	for _, k := range ks {
		first := c.memRaw(mems[0], k)
		same := true
		for _, m := range mems[1:] {
			if c.memRaw(m, k) != first {
				same = false
			}
		}
		if same {
			if sameEpoch && first == c.baseName(k, out.epoch) {
				continue
			}
			out.m[k] = first
			continue
		}
		t := c.memRaw(mems[len(mems)-1], k)
		for i := len(mems) - 2; i >= 0; i-- {
			t = iteT(conds[i], c.memRaw(mems[i], k), t)
		}
		out.m[k] = c.define("mem", memSorts[k], t)
	}
	return out
}
