package main

// call.go — calls (builtins, contracts, inlining, havoc) and the per-function
// verification driver.

import (
	"go/token"
	"fmt"
	"go/constant"
	"go/types"
	"sort"
	"strconv"
	"strings"

	"golang.org/x/tools/go/ssa"
)

const modulePath = "github.com/github/git-sizer"

func inModule(p *types.Package) bool {
	return p != nil && strings.HasPrefix(p.Path(), modulePath)
}

// calleeMatches: pattern is a substring of the callee name, optionally
// followed by ("literal"): then some argument must be that string constant.
func calleeMatches(cc *ssa.CallCommon, pattern string) bool {
	name := calleeName(cc)
	lit := ""
	if k := strings.Index(pattern, "(\""); k >= 0 && strings.HasSuffix(pattern, "\")") {
		lit = pattern[k+2 : len(pattern)-2]
		if u, err := strconv.Unquote("\"" + lit + "\""); err == nil {
			lit = u
		}
		pattern = pattern[:k]
	}
	if !strings.Contains(name, pattern) {
		return false
	}
	if lit == "" {
		return true
	}
	for _, a := range cc.Args {
		if k, ok := a.(*ssa.Const); ok && k.Value != nil && isString(k.Type()) && constant.StringVal(k.Value) == lit {
			return true
		}
		// variadic arguments: constants stored into the varargs array
		if sl, ok := a.(*ssa.Slice); ok {
			if al, ok := sl.X.(*ssa.Alloc); ok && al.Referrers() != nil {
				for _, ref := range *al.Referrers() {
					ia, ok := ref.(*ssa.IndexAddr)
					if !ok || ia.Referrers() == nil {
						continue
					}
					for _, r2 := range *ia.Referrers() {
						if st, ok := r2.(*ssa.Store); ok {
							if k, ok := st.Val.(*ssa.Const); ok && k.Value != nil && isString(k.Type()) && constant.StringVal(k.Value) == lit {
								return true
							}
						}
					}
				}
			}
		}
	}
	return false
}

// pure externals: result depends only on the arguments, memory unchanged.
var pureExternal = map[string]bool{}

func isNoopCall(name string) bool {
	switch {
	case strings.HasSuffix(name, "(*sync.Mutex).Lock"), strings.HasSuffix(name, "(*sync.Mutex).Unlock"),
		strings.HasSuffix(name, "(*sync.Once).Do"):
		return true
	}
	return false
}

type effect struct {
	all   bool
	types []types.Type
	keys  []string
	cells []types.Type
}

func (ex *Exec) contractFor(fn *ssa.Function) *FuncContract {
	if fn == nil || fn.Pkg == nil {
		if fn != nil && fn.Object() != nil && fn.Object().Pkg() != nil {
			// external function: key by package path
			return ex.v.cs.Funcs[fn.Object().Pkg().Path()+"::"+relName(fn)]
		}
		return nil
	}
	if fc := ex.v.cs.Funcs[fn.Pkg.Pkg.Path()+"::"+relName(fn)]; fc != nil {
		return fc
	}
	// renamed since the reference tree: the contract is filed under the old name
	o := outermost(fn)
	if old, ok := renamedFrom[o]; ok {
		return ex.v.cs.Funcs[fn.Pkg.Pkg.Path()+"::"+old+strings.TrimPrefix(fn.RelString(fn.Pkg.Pkg), o.RelString(o.Pkg.Pkg))]
	}
	return nil
}

func relName(fn *ssa.Function) string {
	if fn.Pkg != nil {
		return fn.RelString(fn.Pkg.Pkg)
	}
	if fn.Object() != nil && fn.Object().Pkg() != nil {
		return fn.RelString(fn.Object().Pkg())
	}
	return fn.String()
}

func (ex *Exec) ifaceContract(cc *ssa.CallCommon) *FuncContract {
	t := cc.Value.Type()
	n, ok := t.(*types.Named)
	if !ok || n.Obj().Pkg() == nil {
		return nil
	}
	return ex.v.cs.Funcs[n.Obj().Pkg().Path()+"::"+n.Obj().Name()+"."+cc.Method.Name()]
}

// callEffect summarises what a call may write, for loop havoc.
func (ex *Exec) callEffect(cc *ssa.CallCommon) effect {
	if b, ok := cc.Value.(*ssa.Builtin); ok {
		if b.Name() == "delete" {
			mt := cc.Args[0].Type().Underlying().(*types.Map)
			ex.touchMap(mt)
			var e effect
			for k := range memSorts {
				if strings.HasPrefix(k, "Mmap "+typeKey(mt)+" ") {
					e.keys = append(e.keys, k)
				}
			}
			return e
		}
		return effect{}
	}
	var fc *FuncContract
	var fn *ssa.Function
	if cc.IsInvoke() {
		fc = ex.ifaceContract(cc)
		if fc == nil {
			return effect{all: true}
		}
	} else {
		fn = cc.StaticCallee()
		if fn == nil {
			return effect{all: true}
		}
		if isNoopCall(fn.String()) {
			return effect{}
		}
		fc = ex.contractFor(fn)
	}
	if fc != nil && fc.HasMod {
		return ex.effectOfContract(fc, fn, cc)
	}
	if fn != nil && !inModule(pkgOfFn(fn)) {
		return effect{}
	}
	if fn != nil && fn.Blocks != nil {
		return ex.effectOfBody(fn, map[*ssa.Function]bool{})
	}
	return effect{all: true}
}

func pkgOfFn(fn *ssa.Function) *types.Package {
	if fn.Pkg != nil {
		return fn.Pkg.Pkg
	}
	if fn.Object() != nil {
		return fn.Object().Pkg()
	}
	if fn.Parent() != nil {
		return pkgOfFn(fn.Parent())
	}
	return nil
}

func (ex *Exec) effectOfContract(fc *FuncContract, fn *ssa.Function, cc *ssa.CallCommon) effect {
	var e effect
	for _, m := range fc.Modifies {
		switch {
		case m == "everything":
			e.all = true
		case strings.HasPrefix(m, "fieldmem("):
			for k := range ex.fieldRegion(ex.v.pkgOf(fc.Pkg), m) {
				e.keys = append(e.keys, k)
			}
		case strings.HasPrefix(m, "mapsof("):
			t := ex.v.lookupType(ex.v.pkgOf(fc.Pkg), strings.TrimSuffix(strings.TrimPrefix(m, "mapsof("), ")"))
			if t == nil {
				e.all = true
			} else {
				for _, mt := range mapsOf(t, map[string]bool{}) {
					e.keys = append(e.keys, ex.mapKeysOf(mt)...)
				}
			}
		case strings.HasPrefix(m, "typemem(") || strings.HasPrefix(m, "map("):
			// resolved against the callee's package
			pk := ex.v.pkgOf(fc.Pkg)
			if strings.HasPrefix(m, "typemem(") {
				t := ex.v.lookupType(pk, strings.TrimSuffix(strings.TrimPrefix(m, "typemem("), ")"))
				if t == nil {
					e.all = true
				} else {
					e.types = append(e.types, t)
				}
			} else {
				e.all = true // refined below when the map type is known
				if fn != nil || cc != nil {
					if mt := ex.mapTypeOfExpr(fc, fn, cc, strings.TrimSuffix(strings.TrimPrefix(m, "map("), ")")); mt != nil {
						e.all = false
						ex.touchMap(mt)
						for k := range memSorts {
							if strings.HasPrefix(k, "Mmap "+typeKey(mt)+" ") {
								e.keys = append(e.keys, k)
							}
						}
					}
				}
			}
		default:
			// cell-wise modifies: conservatively the static type of the lvalue
			t := ex.typeOfLvalue(fc, fn, cc, m)
			if t == nil {
				e.all = true
			} else {
				e.types = append(e.types, t)
			}
		}
	}
	return e
}

// typeOfLvalue computes the Go type of a modifies lvalue from signatures only.
func (ex *Exec) typeOfLvalue(fc *FuncContract, fn *ssa.Function, cc *ssa.CallCommon, lv string) types.Type {
	e, err := ParseExpr(strings.TrimSuffix(lv, ".*"))
	if err != nil {
		return nil
	}
	env := ex.paramTypes(fn, cc)
	t := ex.staticType(e, env, ex.v.pkgOf(fc.Pkg))
	if t == nil {
		return nil
	}
	if strings.HasSuffix(lv, ".*") {
		return derefType(t)
	}
	return t
}

func (ex *Exec) mapTypeOfExpr(fc *FuncContract, fn *ssa.Function, cc *ssa.CallCommon, s string) *types.Map {
	e, err := ParseExpr(s)
	if err != nil {
		return nil
	}
	t := ex.staticType(e, ex.paramTypes(fn, cc), ex.v.pkgOf(fc.Pkg))
	if t == nil {
		return nil
	}
	mt, _ := t.Underlying().(*types.Map)
	return mt
}

func (ex *Exec) paramTypes(fn *ssa.Function, cc *ssa.CallCommon) map[string]types.Type {
	env := map[string]types.Type{}
	if fn != nil {
		for _, fv := range fn.FreeVars {
			env[fv.Name()] = fv.Type()
		}
	}
	if fn != nil && len(fn.Params) > 0 {
		var oldNames []string
		if fc := ex.contractFor(fn); fc != nil {
			if sg := ex.v.lockSigs[fc.Full()]; sg != nil && len(sg.Params) >= len(fn.Params) {
				oldNames = sg.Params
			}
		}
		for i, p := range fn.Params {
			env[p.Name()] = p.Type()
			if oldNames != nil && oldNames[i] != "" {
				if _, clash := env[oldNames[i]]; !clash {
					env[oldNames[i]] = p.Type()
				}
			}
		}
		return env
	}
	var sig *types.Signature
	if fn != nil {
		sig = fn.Signature
	} else if cc != nil {
		sig = cc.Signature()
		if cc.IsInvoke() {
			env["self"] = cc.Value.Type()
		}
	}
	if sig != nil {
		if sig.Recv() != nil {
			env[sig.Recv().Name()] = sig.Recv().Type()
			env["recv"] = sig.Recv().Type()
		}
		for i := 0; i < sig.Params().Len(); i++ {
			env[sig.Params().At(i).Name()] = sig.Params().At(i).Type()
			env[fmt.Sprintf("arg%d", i)] = sig.Params().At(i).Type()
		}
	}
	return env
}

// staticType: type of an lvalue expression (id, sel, *x) given parameter types.
func (ex *Exec) staticType(e *Expr, env map[string]types.Type, pkg *types.Package) types.Type {
	switch e.Op {
	case "id":
		return env[e.S]
	case "un":
		if e.S == "*" {
			t := ex.staticType(e.Args[0], env, pkg)
			if t == nil {
				return nil
			}
			return derefType(t)
		}
	case "sel":
		t := ex.staticType(e.Args[0], env, pkg)
		if t == nil {
			return nil
		}
		obj, _, _ := types.LookupFieldOrMethod(t, true, pkg, e.S)
		if f, ok := obj.(*types.Var); ok {
			return f.Type()
		}
		if n, isN := derefType(t).(*types.Named); isN && n.Obj().Pkg() != nil {
			obj, _, _ = types.LookupFieldOrMethod(t, true, n.Obj().Pkg(), e.S)
			if f, ok := obj.(*types.Var); ok {
				return f.Type()
			}
		}
	}
	return nil
}

func (ex *Exec) effectOfBody(fn *ssa.Function, seen map[*ssa.Function]bool) effect {
	if seen[fn] {
		return effect{}
	}
	seen[fn] = true
	var e effect
	for _, b := range fn.Blocks {
		for _, in := range b.Instrs {
			switch in := in.(type) {
			case *ssa.Store:
				if _, local := in.Addr.(*ssa.Alloc); local {
					continue
				}
				if al := rootAlloc(in.Addr); al != nil {
					// cell of an object allocated during the call (e.g. the
					// array of variadic arguments): as for objects allocated
					// inside a loop iteration in the function itself
					continue
				}
				e.types = append(e.types, in.Addr.Type().Underlying().(*types.Pointer).Elem())
			case *ssa.MapUpdate:
				mt := in.Map.Type().Underlying().(*types.Map)
				ex.touchMap(mt)
				for k := range memSorts {
					if strings.HasPrefix(k, "Mmap "+typeKey(mt)+" ") {
						e.keys = append(e.keys, k)
					}
				}
			case *ssa.Call:
				cc := in.Common()
				var sub effect
				if f := cc.StaticCallee(); f != nil && !cc.IsInvoke() && f.Blocks != nil && ex.contractFor(f) == nil && inModule(pkgOfFn(f)) {
					sub = ex.effectOfBody(f, seen)
				} else {
					sub = ex.callEffect(cc)
				}
				e.all = e.all || sub.all
				e.types = append(e.types, sub.types...)
				e.keys = append(e.keys, sub.keys...)
				e.types = append(e.types, sub.cells...)
			}
		}
	}
	return e
}

// ---------------------------------------------------------------- call

func (ex *Exec) call(in *ssa.Call, cc *ssa.CallCommon, r Term) {
	c := ex.c
	setRes := func(v Val) {
		if in != nil {
			v.Typ = in.Type()
			ex.vals[in] = v
		}
		for _, ca := range ex.pendingAssume {
			env := ex.baseEnv(ex.cur)
			ex.bindDominating(env, in)
			for k, nv := range ex.named {
				if _, clash := env.vars[k]; !clash {
					env.vars[k] = nv
				}
			}
			t, err := env.Bool(ca.C.E)
			if err != nil {
				unsup("call %d %s assume: %v", ca.Ordinal, ca.Callee, err)
			}
			ex.c.assume(imp(r, t))
			ex.c.trusted[ca.Trust+": assumed after the call to "+ca.Callee+" in "+ex.fname+": "+ca.C.Text] = true
		}
		ex.pendingAssume = nil
		if pf := ex.patternFrame(); pf != nil && pf.fc != nil && len(pf.fc.CallNames) > 0 {
			for _, cn := range pf.fc.CallNames {
				if !calleeMatches(cc, cn.Callee) {
					continue
				}
				key := "callname:" + cn.Callee
				n := pf.count[key]
				if n == cn.Ordinal && !pf.callSeen[cn.Name] {
					pf.callSeen[cn.Name] = true
					if v.K == KTuple {
						for i, f := range v.Fields {
							pf.named[fmt.Sprintf("%s%d", cn.Name, i)] = f
						}
					} else {
						pf.named[cn.Name] = v
					}
					pf.named[cn.Name+"_reached"] = boolVal(r)
				}
			}
			seenC := map[string]bool{}
			for _, cn := range pf.fc.CallNames {
				if calleeMatches(cc, cn.Callee) && !seenC[cn.Callee] {
					seenC[cn.Callee] = true
					pf.count["callname:"+cn.Callee]++
				}
			}
		}
	}
	resType := func() types.Type {
		if in != nil {
			return in.Type()
		}
		return cc.Signature().Results()
	}
	freshRes := func(hint string) Val {
		rt := resType()
		if tp, ok := rt.(*types.Tuple); ok && tp.Len() == 0 {
			return Val{K: KTuple}
		}
		v := c.freshVal(rt, ex.nm(hint))
		v.Typ = rt
		c.assume(ex.v.wfAssume(c, v))
		ex.noteRefs(v)
		return v
	}
	pos := cc.Pos()
	if in != nil && pos == 0 {
		pos = in.Pos()
	}
	ex.bumpGhosts(calleeName(cc))
	if pf := ex.patternFrame(); pf != nil && pf.fc != nil && len(pf.fc.CallAsserts) > 0 {
		seenA := map[string]bool{}
		for ci, ca := range pf.fc.CallAsserts {
			if !calleeMatches(cc, ca.Callee) {
				continue
			}
			key := "callassert:" + ca.Callee
			if pf.count[key] == ca.Ordinal && ca.Assume && pf == ex {
				ca := ca
				ex.pendingAssume = append(ex.pendingAssume, &ca)
				ex.assertSeen[fmt.Sprintf("%d %s", ca.Ordinal, ca.Callee)] = true
			} else if pf.count[key] == ca.Ordinal && !ca.Assume {
				// inside a helper that was inlined into the function under
				// contract, the clause sees that function's names as they are at
				// the call of the helper (and the memory as it is now)
				env := pf.baseEnv(ex.cur)
				if pf == ex {
					ex.bindDominating(env, in)
				} else {
					pf.bindDominating(env, ex.siteTop)
				}
				for k, nv := range pf.named {
					if _, clash := env.vars[k]; !clash {
						env.vars[k] = nv
					}
				}
				for ai, a := range cc.Args {
					av := ex.val(a)
					av.Typ = a.Type()
					env.vars[fmt.Sprintf("arg_%d", ai)] = av
				}
				t, err := env.Goal(ca.C.E)
				txt := ca.C.Text
				if err != nil {
					if !staleRef(err) {
						unsup("call %d %s assert: %v", ca.Ordinal, ca.Callee, err)
					}
					// it speaks about a call or local that does not exist (any more)
					t = "false"
					txt += "   [cannot be evaluated here: " + err.Error() + "]"
				}
				lbl := ca.C.Label
				if lbl == "" {
					lbl = fmt.Sprintf("c%d", ci)
				}
				pf.addOblTop("assert", lbl, r, t, pos, txt)
				if at, err := env.Bool(ca.C.E); err == nil {
					ex.c.assume(imp(r, at))
				}
				pf.assertSeen[fmt.Sprintf("%d %s", ca.Ordinal, ca.Callee)] = true
			}
			seenA[ca.Callee] = true
		}
		for k := range seenA {
			pf.count["callassert:"+k]++
		}
	}

	if b, ok := cc.Value.(*ssa.Builtin); ok {
		setRes(ex.builtin(b, cc, r, resType()))
		return
	}
	var args []Val
	for _, a := range cc.Args {
		args = append(args, ex.val(a))
	}

	if cc.IsInvoke() {
		recv := ex.val(cc.Value)
		fc := ex.ifaceContract(cc)
		if fc == nil {
			c.dropped["interface call without contract: havoc-all ("+calleeName(cc)+")"] = true
			ex.havocAllKeepPrivate()
			setRes(freshRes("inv"))
			return
		}
		setRes(ex.applyContract(fc, nil, cc, recv, args, r, pos, resType()))
		return
	}

	fn := cc.StaticCallee()
	if fn == nil {
		// call through a function value
		fv := ex.val(cc.Value)
		if mc, ok := ex.top.closureVals[fv.T]; ok {
			cfn := mc.Fn.(*ssa.Function)
			if fc := ex.contractFor(cfn); fc != nil && fc.Options["inline"] == "" && (len(fc.Ensures) > 0 || len(fc.Requires) > 0) {
				setRes(ex.applyContract(fc, cfn, cc, Val{}, args, r, pos, resType()))
				return
			}
			if ex.depth < 3 {
				ex.inlineSite = in
				setRes(ex.inline(cfn, args, mc.Bindings, r, resType()))
				return
			}
		}
		c.dropped["call through function value: havoc-all"] = true
		ex.havocAllKeepPrivate()
		setRes(freshRes("dyn"))
		return
	}
	name := fn.String()
	if isNoopCall(name) {
		c.dropped["sync.Mutex / sync.Once: no-op (sequential proof)"] = true
		setRes(Val{K: KTuple})
		return
	}
	if name == "fmt.Sprintf" {
		if v, ok := ex.sprintfModel(cc, r); ok {
			setRes(v)
			return
		}
	}
	if fc := ex.contractFor(fn); fc != nil && !(fc.Options["inline"] != "" && fn.Blocks != nil) {
		setRes(ex.applyContract(fc, fn, cc, Val{}, args, r, pos, resType()))
		return
	}
	if !inModule(pkgOfFn(fn)) {
		// external without contract: memory unchanged (A-STD-FRAME), fresh result
		c.trusted["A-STD-FRAME: calls into the standard library / dependencies without an assumed contract leave all memory readable by module code unchanged and return an arbitrary value ("+name+")"] = true
		setRes(freshRes("ext_" + fn.Name()))
		return
	}
	// module function without contract: inline when possible
	recursive := false
	for _, s := range ex.stack {
		if s == name {
			recursive = true
		}
	}
	if fn.Blocks != nil && !recursive && ex.depth < 4 {
		var bindings []ssa.Value
		if mc, ok := cc.Value.(*ssa.MakeClosure); ok {
			bindings = mc.Bindings
		}
		ex.inlineSite = in
		setRes(ex.inline(fn, args, bindings, r, resType()))
		return
	}
	c.dropped["module call without contract that cannot be inlined: havoc-all ("+name+")"] = true
	ex.havocAllKeepPrivate()
	setRes(freshRes("call"))
}

func (ex *Exec) inline(fn *ssa.Function, args []Val, bindings []ssa.Value, r Term, rt types.Type) Val {
	ex.top.inlineN++
	sub := &Exec{v: ex.v, c: ex.c, fn: fn, fname: fn.String(), prefix: fmt.Sprintf("%si%d_", ex.prefix, ex.top.inlineN),
		vals: map[ssa.Value]Val{}, obls: ex.obls, depth: ex.depth + 1, stack: append(append([]string{}, ex.stack...), fn.String()),
		top: ex.top, decAtHeader: map[*ssa.BasicBlock]Val{}, headerEnv: map[*ssa.BasicBlock]*Env{}, autoRange: map[*ssa.BasicBlock]*rangeInv{}, debugBound: map[*Env]map[string]bool{}, paramNames: map[string]bool{}, entryEnv: nil}
	sub.fc = ex.contractFor(fn) // may carry loop invariants for an inlined function
	sub.parent = ex
	if ex == ex.top {
		sub.siteTop = ex.inlineSite
	} else {
		sub.siteTop = ex.siteTop
	}
	for i, p := range fn.Params {
		a := args[i]
		a.Typ = p.Type()
		sub.vals[p] = a
	}
	for i, fv := range fn.FreeVars {
		if i < len(bindings) {
			sub.vals[fv] = ex.val(bindings[i])
		}
	}
	// entry env for loop invariants inside the inlined function
	env := &Env{c: ex.c, v: ex.v, vars: map[string]Val{}, mem: ex.cur.clone(), pkg: pkgOfFn(fn)}
	for _, p := range fn.Params {
		env.vars[p.Name()] = sub.vals[p]
	}
	for _, fv := range fn.FreeVars {
		if v, ok := sub.vals[fv]; ok {
			env.vars[fv.Name()] = v
		}
	}
	sub.entryEnv = env
	outReach, vals, mem := sub.run(r, ex.cur)
	ex.c.assume(imp(r, outReach))
	ex.cur = mem
	switch len(vals) {
	case 0:
		return Val{K: KTuple}
	case 1:
		return vals[0]
	}
	return Val{K: KTuple, Typ: rt, Fields: vals}
}

// applyContract uses a callee's contract at a call site.
func (ex *Exec) applyContract(fc *FuncContract, fn *ssa.Function, cc *ssa.CallCommon, recv Val, args []Val, r Term, pos interface{}, rt types.Type) Val {
	c := ex.c
	calleeDisp := fc.Full()
	if fc.Assumed {
		t := "assumed contract of " + calleeDisp
		if fc.Trust != "" {
			t = fc.Trust + ": " + t
		}
		c.trusted[t] = true
	}
	pre := &Env{c: c, v: ex.v, vars: map[string]Val{}, mem: ex.cur.clone(), pkg: ex.v.pkgOf(fc.Pkg)}
	ex.bindParams(pre, fn, cc, recv, args)
	if fn != nil && len(fn.FreeVars) > 0 {
		// a closure under contract: its free variables are the bindings of
		// the closure value being called
		var bindings []ssa.Value
		if mc, ok := cc.Value.(*ssa.MakeClosure); ok {
			bindings = mc.Bindings
		} else if fv, ok := ex.vals[cc.Value]; ok {
			if mc, ok := ex.top.closureVals[fv.T]; ok && mc.Fn == fn {
				bindings = mc.Bindings
			}
		}
		if len(bindings) != len(fn.FreeVars) {
			unsup("contract %s: closure bindings not available at the call", calleeDisp)
		}
		for i, fv := range fn.FreeVars {
			bv := ex.val(bindings[i])
			bv.Typ = fv.Type()
			pre.vars[fv.Name()] = bv
		}
	}
	for _, l := range fc.Lets {
		v, err := pre.Value(l.E)
		if err != nil {
			unsup("contract %s let %s: %v", calleeDisp, l.Name, err)
		}
		pre.vars[l.Name] = v
	}
	for _, rq := range fc.Requires {
		tag := fc.Options["assume-pre"]
		if strings.HasPrefix(rq.Label, "assume:") {
			tag = strings.TrimPrefix(rq.Label, "assume:")
		}
		if tag != "" {
			// the precondition is an assumption about the environment (named
			// in the trusted base), not an obligation of the caller
			at, err := pre.Bool(rq.E)
			if err != nil {
				unsup("contract %s requires: %v", calleeDisp, err)
			}
			c.assume(imp(r, at))
			c.trusted[tag+": precondition of "+calleeDisp+" assumed at its call sites: "+rq.Text] = true
			continue
		}
		t, err := pre.Goal(rq.E)
		if err != nil {
			unsup("contract %s requires: %v", calleeDisp, err)
		}
		// (a violated precondition of a callee marked `precondition-panics`
		// is a run-time panic for some inputs only — e.g. hex.Decode panics
		// only if enough leading bytes are hex digits — so it is judged like
		// any other precondition, not by expecting a panic in the replay)
		ex.addObl("pre:"+calleeDisp, rq.Label, r, t, cc.Pos(), rq.Text, false)
		if at, err := pre.Bool(rq.E); err == nil {
			c.assume(imp(r, at))
		}
	}
	// termination of direct recursion: the measure of the callee's arguments
	// is non-negative and strictly below the measure at entry
	if fc.Decreases != nil && fn != nil && fn == ex.fn && ex.entryEnv != nil {
		nv, err1 := pre.Value(fc.Decreases.E)
		ov, err2 := ex.entryEnv.Value(fc.Decreases.E)
		if err1 != nil || err2 != nil {
			unsup("contract %s decreases: %v %v", calleeDisp, err1, err2)
		}
		goal := and(app("bvsle", bvLit(64, 0), nv.T), app("bvslt", nv.T, ov.T))
		ex.addObl("decreases:"+calleeDisp, "", r, goal, cc.Pos(), fc.Decreases.Text, false)
	}
	// effect
	if !fc.HasMod {
		ex.havocAllKeepPrivate()
	} else {
		var regs []string
		for _, m := range fc.Modifies {
			if strings.HasPrefix(m, "fieldmem(") {
				regs = append(regs, m)
				continue
			}
			ex.havocLvalue(pre, m, calleeDisp)
		}
		ex.havocFieldRegions(pre.pkg, regs, calleeDisp)
	}
	// results
	post := &Env{c: c, v: ex.v, vars: map[string]Val{}, mem: ex.cur, old: pre, pkg: pre.pkg}
	for k, v := range pre.vars {
		post.vars[k] = v
	}
	var res Val
	var sig *types.Signature
	if fn != nil {
		sig = fn.Signature
	} else {
		sig = cc.Signature()
	}
	nres := sig.Results().Len()
	var rvals []Val
	for i := 0; i < nres; i++ {
		rv := c.freshVal(sig.Results().At(i).Type(), ex.nm("r_"+sanitize(fc.Name)))
		rv.Typ = sig.Results().At(i).Type()
		c.assume(ex.v.wfAssume(c, rv))
		ex.noteRefs(rv)
		rvals = append(rvals, rv)
		post.vars[fmt.Sprintf("result%d", i)] = rv
		if n := sig.Results().At(i).Name(); n != "" && n != "_" {
			post.vars[n] = rv
		}
	}
	if nres == 1 {
		post.vars["result"] = rvals[0]
		res = rvals[0]
	} else if nres > 1 {
		res = Val{K: KTuple, Typ: rt, Fields: rvals}
	} else {
		res = Val{K: KTuple}
	}
	for _, en := range fc.Ensures {
		internal := false
		for _, cn := range fc.CallNames {
			if strings.Contains(en.Text, cn.Name) {
				internal = true // speaks about a call inside the callee: not visible here
			}
		}
		if internal {
			continue
		}
		t, err := post.Bool(en.E)
		if err != nil {
			if staleRef(err) {
				continue // mentions a local of the callee: internal clause
			}
			unsup("contract %s ensures: %v", calleeDisp, err)
		}
		c.assume(imp(r, t))
	}
	return res
}

func (ex *Exec) bindParams(env *Env, fn *ssa.Function, cc *ssa.CallCommon, recv Val, args []Val) {
	if fn != nil && len(fn.Params) == len(args) && len(fn.Params) > 0 {
		var oldNames []string
		if fc := ex.contractFor(fn); fc != nil {
			if sg := ex.v.lockSigs[fc.Full()]; sg != nil && len(sg.Params) >= len(fn.Params) {
				oldNames = sg.Params
			}
		}
		for i, p := range fn.Params {
			a := args[i]
			a.Typ = p.Type()
			env.vars[p.Name()] = a
			env.vars[fmt.Sprintf("arg%d", i)] = a
			if oldNames != nil && oldNames[i] != p.Name() && oldNames[i] != "" {
				if _, clash := env.vars[oldNames[i]]; !clash {
					env.vars[oldNames[i]] = a // the parameter was renamed since the reference tree
				}
			}
		}
		return
	}
	var sig *types.Signature
	if fn != nil {
		sig = fn.Signature
	} else {
		sig = cc.Signature()
	}
	k := 0
	if cc != nil && cc.IsInvoke() {
		recv.Typ = cc.Value.Type()
		env.vars["self"] = recv
	} else if sig.Recv() != nil && len(args) > 0 {
		a := args[0]
		a.Typ = sig.Recv().Type()
		env.vars["recv"] = a
		if n := sig.Recv().Name(); n != "" && n != "_" {
			env.vars[n] = a
		}
		k = 1
	}
	for i := 0; i < sig.Params().Len() && k+i < len(args); i++ {
		a := args[k+i]
		a.Typ = sig.Params().At(i).Type()
		if n := sig.Params().At(i).Name(); n != "" && n != "_" {
			env.vars[n] = a
		}
		env.vars[fmt.Sprintf("arg%d", i)] = a
	}
}

// fieldRegion resolves fieldmem(T.f): memory keys and the address tags of
// the cells of field f in any object of struct type T.
func (ex *Exec) fieldRegion(pkg *types.Package, m string) map[string][]int {
	arg := strings.TrimSuffix(strings.TrimPrefix(m, "fieldmem("), ")")
	k := strings.LastIndex(arg, ".")
	if k < 0 {
		unsup("bad %s", m)
	}
	t := ex.v.lookupType(pkg, arg[:k])
	if t == nil {
		unsup("unknown type in %s", m)
	}
	st, ok := t.Underlying().(*types.Struct)
	if !ok {
		unsup("%s: not a struct", m)
	}
	for i := 0; i < st.NumFields(); i++ {
		if st.Field(i).Name() == arg[k+1:] {
			return ex.fieldRegionOf(t, i)
		}
	}
	if alt := fieldAlias(t, arg[k+1:]); alt != "" {
		for i := 0; i < st.NumFields(); i++ {
			if st.Field(i).Name() == alt {
				return ex.fieldRegionOf(t, i)
			}
		}
	}
	unsup("%s: no such field", m)
	return nil
}

// fieldRegionOf: the memory keys and address tags of the cells of field i of
// struct type t.
func (ex *Exec) fieldRegionOf(t types.Type, i int) map[string][]int {
	c := ex.c
	st := t.Underlying().(*types.Struct)
	out := map[string][]int{}
	for _, cl := range c.cells(c.fieldAddr("0", t, i), st.Field(i).Type()) {
		head := cl.addr[1:]
		if j := strings.Index(head, "| "); j >= 0 {
			head = head[:j+1]
		}
		id := c.faIDs[head]
		for li, s := range c.leafSorts(cl.t) {
			c.memGet(ex.cur, cl.t, li, s)
			key := c.memName(cl.t, li)
			out[key] = append(out[key], id)
		}
	}
	return out
}

// staticFieldRegion over-approximates a modified cell `x.f` whose base is not
// available (computed inside a loop) by the region of field f in any object
// of the static struct type of x.
func (ex *Exec) staticFieldRegion(fc *FuncContract, fn *ssa.Function, cc *ssa.CallCommon, m string) (map[string][]int, bool) {
	e, err := ParseExpr(m)
	if err != nil || e.Op != "sel" {
		return nil, false
	}
	pkg := ex.v.pkgOf(fc.Pkg)
	bt := ex.staticType(e.Args[0], ex.paramTypes(fn, cc), pkg)
	if bt == nil {
		return nil, false
	}
	obj, path, _ := types.LookupFieldOrMethod(bt, true, pkg, e.S)
	if _, ok := obj.(*types.Var); !ok {
		if n, isN := derefType(bt).(*types.Named); isN && n.Obj().Pkg() != nil {
			obj, path, _ = types.LookupFieldOrMethod(bt, true, n.Obj().Pkg(), e.S)
		}
	}
	if _, ok := obj.(*types.Var); !ok || len(path) == 0 {
		return nil, false
	}
	t := derefType(bt)
	for k, idx := range path {
		st, ok := t.Underlying().(*types.Struct)
		if !ok {
			return nil, false
		}
		if k == len(path)-1 {
			return ex.fieldRegionOf(t, idx), true
		}
		t = st.Field(idx).Type()
		if _, isPtr := t.Underlying().(*types.Pointer); isPtr {
			t = derefType(t)
		}
	}
	return nil, false
}

func (ex *Exec) regionsOf(pkg *types.Package, regs []string) map[string][]int {
	all := map[string][]int{}
	for _, m := range regs {
		for k, ids := range ex.fieldRegion(pkg, m) {
			all[k] = append(all[k], ids...)
		}
	}
	return all
}

// havocFieldRegions: a fresh array that agrees with the old one outside the
// region (addresses whose field tag is one of the listed fields).
func (ex *Exec) havocFieldRegions(pkg *types.Package, regs []string, who string) {
	if len(regs) == 0 {
		return
	}
	c := ex.c
	all := ex.regionsOf(pkg, regs)
	var ks []string
	for k := range all {
		ks = append(ks, k)
	}
	sort.Strings(ks)
	for _, k := range ks {
		old := c.memRaw(ex.cur, k)
		c.havocKey(ex.cur, k)
		nw := ex.cur.m[k]
		a := c.fresh("a")
		c.bound[a] = true
		var in []Term
		for _, id := range all[k] {
			in = append(in, eq(app("ftag", a), fmt.Sprint(id)))
		}
		c.hasQ = true
		c.assume(fmt.Sprintf("(forall ((%s Int)) (! %s :pattern ((select %s %s))))", a,
			or(append(in, eq(app("select", nw, a), app("select", old, a)))...), nw, a))
	}
}

// mapsOf lists the map types of the fields of struct type t (recursively).
func mapsOf(t types.Type, seen map[string]bool) []*types.Map {
	var out []*types.Map
	switch u := t.Underlying().(type) {
	case *types.Struct:
		if seen[typeKey(t)] {
			return nil
		}
		seen[typeKey(t)] = true
		for i := 0; i < u.NumFields(); i++ {
			out = append(out, mapsOf(u.Field(i).Type(), seen)...)
		}
	case *types.Map:
		out = append(out, u)
	}
	return out
}

func (ex *Exec) mapKeysOf(mt *types.Map) []string {
	ex.touchMap(mt)
	var ks []string
	for k := range memSorts {
		if strings.HasPrefix(k, "Mmap "+typeKey(mt)+" ") {
			ks = append(ks, k)
		}
	}
	sort.Strings(ks)
	return ks
}

// havocLvalue forgets the cells named by one modifies entry (evaluated in the
// pre-state of the call).
func (ex *Exec) havocLvalue(pre *Env, m string, who string) {
	c := ex.c
	switch {
	case m == "everything":
		ex.havocAllKeepPrivate()
		return
	case strings.HasPrefix(m, "typemem("):
		t := ex.v.lookupType(pre.pkg, strings.TrimSuffix(strings.TrimPrefix(m, "typemem("), ")"))
		if t == nil {
			unsup("contract %s: unknown type in %s", who, m)
		}
		for _, cl := range c.cells("0", t) {
			for i, s := range c.leafSorts(cl.t) {
				c.memGet(ex.cur, cl.t, i, s)
				c.havocKey(ex.cur, c.memName(cl.t, i))
			}
		}
		return
	case strings.HasPrefix(m, "mapsof("):
		t := ex.v.lookupType(pre.pkg, strings.TrimSuffix(strings.TrimPrefix(m, "mapsof("), ")"))
		if t == nil {
			unsup("contract %s: unknown type in %s", who, m)
		}
		for _, mt := range mapsOf(t, map[string]bool{}) {
			for _, k := range ex.mapKeysOf(mt) {
				c.havocKey(ex.cur, k)
			}
		}
		return
	case strings.HasPrefix(m, "map("):
		e, err := ParseExpr(strings.TrimSuffix(strings.TrimPrefix(m, "map("), ")"))
		if err != nil {
			unsup("contract %s: %v", who, err)
		}
		mv, err := pre.Value(e)
		if err != nil {
			unsup("contract %s modifies %s: %v", who, m, err)
		}
		mt := mv.Typ.Underlying().(*types.Map)
		ex.touchMap(mt)
		var ks []string
		for k := range memSorts {
			if strings.HasPrefix(k, "Mmap "+typeKey(mt)+" ") {
				ks = append(ks, k)
			}
		}
		sort.Strings(ks)
		for _, k := range ks {
			// only the entry of this map reference changes
			old := c.memRaw(ex.cur, k)
			inner := memSorts[k][len("(Array Int ") : len(memSorts[k])-1]
			nv := c.declConst(c.fresh("hmap"), inner)
			ex.cur.m[k] = c.define("mem", memSorts[k], app("store", old, mv.T, nv))
		}
		return
	}
	for _, cl := range ex.lvalueCells(pre, m, who) {
		c.havocCell(ex.cur, cl, "h_"+sanitize(who))
	}
}

func (ex *Exec) lvalueCells(env *Env, m string, who string) []cell {
	c := ex.c
	star := strings.HasSuffix(m, ".*")
	txt := strings.TrimSuffix(m, ".*")
	e, err := ParseExpr(txt)
	if err != nil {
		unsup("contract %s modifies %s: %v", who, m, err)
	}
	if star {
		// all cells of the struct that txt points to (or is, when txt is an lvalue of struct type)
		v, err := env.Value(e)
		if err == nil && v.K == KRef && v.T != "unavailable" {
			return c.cells(v.T, derefType(v.Typ))
		}
		if err == nil && v.K == KLit {
			unsup("contract %s modifies %s: not an address", who, m)
		}
	}
	var pv Val
	func() {
		defer func() {
			if r := recover(); r != nil {
				if ee, ok := r.(evalErr); ok {
					unsup("contract %s modifies %s: %s", who, m, ee.msg)
				}
				panic(r)
			}
		}()
		pv = env.addrOf(e)
	}()
	if pv.K != KRef || pv.T == "" || pv.T == "unavailable" {
		unsup("contract %s modifies %s: not an address", who, m)
	}
	return c.cells(pv.T, derefType(pv.Typ))
}

// ---------------------------------------------------------------- builtins

func (ex *Exec) builtin(b *ssa.Builtin, cc *ssa.CallCommon, r Term, rt types.Type) Val {
	c := ex.c
	switch b.Name() {
	case "len", "cap":
		x := ex.val(cc.Args[0])
		switch x.K {
		case KSlice:
			return bvVal(x.Len, 64, true, types.Typ[types.Int])
		case KRef:
			if mt, ok := cc.Args[0].Type().Underlying().(*types.Map); ok {
				return bvVal(c.mapLen(ex.cur, x.T, mt), 64, true, types.Typ[types.Int])
			}
			if pt, ok := cc.Args[0].Type().Underlying().(*types.Pointer); ok {
				if at, ok := pt.Elem().Underlying().(*types.Array); ok {
					return bvVal(bvLit(64, uint64(at.Len())), 64, true, types.Typ[types.Int])
				}
			}
			// channel length: arbitrary non-negative
			v := c.freshVal(types.Typ[types.Int], "chanlen")
			c.assume(app("bvsge", v.T, bvLit(64, 0)))
			return v
		case KBV:
			if at, ok := cc.Args[0].Type().Underlying().(*types.Array); ok {
				return bvVal(bvLit(64, uint64(at.Len())), 64, true, types.Typ[types.Int])
			}
		}
		unsup("len of %s", cc.Args[0].Type())
	case "append":
		return ex.appendB(cc, r)
	case "copy":
		return ex.copyB(cc, r)
	case "delete":
		m := ex.val(cc.Args[0])
		mt := cc.Args[0].Type().Underlying().(*types.Map)
		c.mapDelete(ex.cur, m.T, mt, c.mapKey(mt, ex.val(cc.Args[1])))
		return Val{K: KTuple}
	case "close", "print", "println":
		return Val{K: KTuple}
	case "recover":
		return Val{K: KIface, T: "inil"}
	}
	unsup("builtin %s", b.Name())
	return Val{}
}

// appendB models append with value semantics: the result holds the old
// elements followed by the new ones.
func (ex *Exec) appendB(cc *ssa.CallCommon, r Term) Val {
	c := ex.c
	s := ex.val(cc.Args[0])
	t := ex.val(cc.Args[1])
	st := cc.Args[0].Type().Underlying().(*types.Slice)
	s.Elem = st.Elem()
	// single-element append (the variadic slice is built from a 1-element array)
	if sl, ok := cc.Args[1].(*ssa.Slice); ok {
		if al, ok := sl.X.(*ssa.Alloc); ok {
			if at, ok := al.Type().Underlying().(*types.Pointer).Elem().Underlying().(*types.Array); ok && sl.Low == nil && sl.High == nil {
				n := int(at.Len())
				res := s
				res.Typ = cc.Args[0].Type()
				res.Arr = append([]Term{}, s.Arr...)
				for i := 0; i < n; i++ {
					ev := c.sliceElem(t, bvLit(64, uint64(i)))
					ls := leaves(ev)
					at := app("bvadd", s.Off, app("bvadd", s.Len, bvLit(64, uint64(i))))
					for k := range res.Arr {
						res.Arr[k] = app("store", res.Arr[k], at, ls[k])
					}
				}
				res.Len = app("bvadd", s.Len, bvLit(64, uint64(n)))
				return res
			}
		}
	}
	// general append of a slice / string: fresh arrays with quantified content
	sorts := c.leafSorts(st.Elem())
	res := Val{K: KSlice, Typ: cc.Args[0].Type(), Elem: st.Elem(), Off: bvLit(64, 0)}
	res.Len = c.define("applen", bvSort(64), app("bvadd", s.Len, t.Len))
	c.hasQ = true
	for k, so := range sorts {
		arr := c.declConst(c.fresh("app"), arrSort(bvSort(64), so))
		res.Arr = append(res.Arr, arr)
		i := c.fresh("i")
		c.bound[i] = true
		c.assume(fmt.Sprintf("(forall ((%s (_ BitVec 64))) (! %s :pattern ((select %s %s))))", i,
			and(imp(and(app("bvsle", bvLit(64, 0), i), app("bvslt", i, s.Len)),
				eq(app("select", arr, i), app("select", s.Arr[k], app("bvadd", s.Off, i)))),
				imp(and(app("bvsle", s.Len, i), app("bvslt", i, res.Len)),
					eq(app("select", arr, i), app("select", t.Arr[k], app("bvadd", t.Off, app("bvsub", i, s.Len)))))), arr, i))
	}
	return res
}

func (ex *Exec) copyB(cc *ssa.CallCommon, r Term) Val {
	c := ex.c
	dst := ex.val(cc.Args[0])
	src := ex.val(cc.Args[1])
	n := iteT(app("bvsle", dst.Len, src.Len), dst.Len, src.Len)
	if dst.ArrBack != nil {
		at := dst.ArrBack.Typ.Underlying().(*types.Array)
		N := int(at.Len())
		old := c.load(ex.cur, dst.ArrBack.Addr, dst.ArrBack.Typ)
		var parts []Term
		for i := 0; i < N; i++ {
			bi := bvLit(64, uint64(i))
			parts = append(parts, iteT(app("bvslt", bi, n), c.sliceElem(src, bi).T, byteOfArr(old, N, i).T))
		}
		nv := old
		nv.T = app("concat", parts...)
		c.store(ex.cur, dst.ArrBack.Addr, dst.ArrBack.Typ, nv)
		return bvVal(n, 64, true, types.Typ[types.Int])
	}
	if ms, ok := cc.Args[0].(*ssa.MakeSlice); ok {
		_ = ms
	}
	unsup("copy into a slice that is not backed by a local byte array")
	return Val{}
}

// sprintfModel: fmt.Sprintf with a constant format made of literal text and
// simple verbs is modelled at the level of content keys (A-STD-FMT): the
// result's key is the left-associated catkey of the keys of its pieces; a %s
// of a string is that string, %s of a git.OID is its hex form (oidHexK), any
// other verb/argument is an uninterpreted function of the argument.
func (ex *Exec) sprintfModel(cc *ssa.CallCommon, r Term) (Val, bool) {
	c := ex.c
	k, ok := cc.Args[0].(*ssa.Const)
	if !ok || k.Value == nil {
		return Val{}, false
	}
	format := constant.StringVal(k.Value)
	// collect the boxed arguments from the varargs array
	var boxed []ssa.Value
	if len(cc.Args) > 1 {
		sl, ok := cc.Args[1].(*ssa.Slice)
		if !ok {
			if kc, isC := cc.Args[1].(*ssa.Const); !(isC && kc.Value == nil) {
				return Val{}, false
			}
		} else {
			al, ok := sl.X.(*ssa.Alloc)
			if !ok || al.Referrers() == nil {
				return Val{}, false
			}
			n := int(al.Type().Underlying().(*types.Pointer).Elem().Underlying().(*types.Array).Len())
			boxed = make([]ssa.Value, n)
			for _, ref := range *al.Referrers() {
				ia, ok := ref.(*ssa.IndexAddr)
				if !ok || ia.Referrers() == nil {
					continue
				}
				ik, ok := ia.Index.(*ssa.Const)
				if !ok {
					return Val{}, false
				}
				for _, r2 := range *ia.Referrers() {
					if st, ok := r2.(*ssa.Store); ok {
						boxed[int(ik.Int64())] = st.Val
					}
				}
			}
		}
	}
	var keys []Term
	argi := 0
	lit := ""
	flush := func() {
		if lit != "" {
			keys = append(keys, c.strKey(c.strConst(lit)))
			lit = ""
		}
	}
	for i := 0; i < len(format); i++ {
		if format[i] != '%' {
			lit += string(format[i])
			continue
		}
		if i+1 < len(format) && format[i+1] == '%' {
			lit += "%"
			i++
			continue
		}
		// verb: %[flags][width][.prec]verb
		j := i + 1
		for j < len(format) && strings.ContainsRune("+-# 0123456789.", rune(format[j])) {
			j++
		}
		if j >= len(format) || argi >= len(boxed) || boxed[argi] == nil {
			return Val{}, false
		}
		verb := format[i : j+1]
		flush()
		a := boxed[argi]
		argi++
		var xt types.Type
		var xv Val
		if mi, ok := a.(*ssa.MakeInterface); ok {
			xt = mi.X.Type()
			xv = ex.val(mi.X)
		} else {
			xt = a.Type()
			xv = ex.val(a)
		}
		switch {
		case verb == "%s" && isString(xt):
			keys = append(keys, c.strKey(xv))
		case verb == "%s" && typeKey(xt) == modulePath+"/git.OID":
			c.declFun("spec_oidHexK", []string{bvSort(160)}, SKey)
			keys = append(keys, app("spec_oidHexK", leaves(xv)[0]))
		default:
			fn := "|fmt " + verb + " " + typeKey(xt) + "|"
			ls := leaves(xv)
			var sorts []string
			for _, s2 := range c.leafSorts(xt) {
				sorts = append(sorts, s2)
			}
			c.declFun(fn, sorts, SKey)
			keys = append(keys, app(fn, ls...))
		}
		i = j
	}
	flush()
	res := c.freshVal(types.Typ[types.String], ex.nm("sprintf"))
	c.assume(ex.v.wfAssume(c, res))
	if len(keys) > 0 {
		c.declFun("catkey", []string{SKey, SKey}, SKey)
		t := keys[0]
		for _, kx := range keys[1:] {
			t = app("catkey", t, kx)
		}
		c.assume(eq(c.strKey(res), t))
	}
	c.trusted["A-STD-FMT: fmt.Sprintf with a constant format is modelled on content keys (%s of a string is the string, %s of an OID its hex form)"] = true
	return res, true
}

// patternFrame: the frame whose contract's call patterns (`call K f as x`,
// `call K f assert e`, ghost counters) see the calls made here: the function
// under contract itself, or -- inside helpers without a contract of their own
// that were inlined into it -- that function. nil inside a callee that has its
// own contract (its calls are its own business).
func (ex *Exec) patternFrame() *Exec {
	if ex == ex.top {
		return ex
	}
	for f := ex; f != nil && f != ex.top; f = f.parent {
		if f.fc != nil || f.parent == nil {
			return nil
		}
	}
	if ex.siteTop == nil {
		return nil
	}
	return ex.top
}

// addOblTop adds an obligation named after the top function (used for clauses
// of its contract that are met inside an inlined helper).
func (ex *Exec) addOblTop(kind, label string, guard, goal Term, pos token.Pos, text string) *Obligation {
	return ex.top.addObl(kind, label, guard, goal, pos, text, false)
}
