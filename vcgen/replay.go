package main

// replay.go — turns a solver model into an in-package Go test that runs the
// real function on the model's inputs (go test -overlay; nothing is written
// into /repo) and compares what really happens with what the model predicts.

import (
	"encoding/json"
	"fmt"
	"go/types"
	"math/big"
	"os"
	"os/exec"
	"path/filepath"
	"strconv"
	"strings"
	"time"

	"golang.org/x/tools/go/ssa"
)

type ParamInfo struct {
	Name    string
	Type    types.Type
	Val     Val
	Pointee *Val
}

type OutInfo struct {
	Name   string // e.g. result0, mod:s.MaxPathDepth
	GoExpr string
	Type   types.Type
	Val    Val
}

type ReplayPlan struct {
	Fn      *ssa.Function
	Params  []ParamInfo
	Outs    []OutInfo
	PkgPath string
}

const replayBytes = 40

// terms lists every scalar term whose model value is needed.
func (rp *ReplayPlan) terms(c *Ctx) []NamedTerm {
	var out []NamedTerm
	var walk func(name string, v Val)
	walk = func(name string, v Val) {
		switch v.K {
		case KStruct, KTuple:
			for i, f := range v.Fields {
				walk(fmt.Sprintf("%s.%d", name, i), f)
			}
		case KSlice:
			out = append(out, NamedTerm{Name: name + ".off", T: v.Off, Sort: bvSort(64)}, NamedTerm{Name: name + ".len", T: v.Len, Sort: bvSort(64)})
			if len(v.Arr) == 1 && isByte(v.Elem) {
				for i := 0; i < replayBytes; i++ {
					out = append(out, NamedTerm{Name: fmt.Sprintf("%s.b%d", name, i), T: c.sliceElem(v, bvLit(64, uint64(i))).T, Sort: bvSort(8)})
				}
			}
		default:
			if v.T != "" {
				out = append(out, NamedTerm{Name: name, T: v.T, Sort: "scalar"})
			}
		}
	}
	for _, p := range rp.Params {
		walk("in:"+p.Name, p.Val)
		if p.Pointee != nil {
			walk("in:*"+p.Name, *p.Pointee)
		}
	}
	for _, o := range rp.Outs {
		walk("out:"+o.Name, o.Val)
	}
	return out
}

type modelVal struct {
	isBool bool
	b      bool
	n      *big.Int
	isFP   bool
	fpBits uint64
	ok     bool
}

func parseModelVal(s string) modelVal {
	s = strings.TrimSpace(s)
	switch {
	case s == "true":
		return modelVal{isBool: true, b: true, ok: true}
	case s == "false":
		return modelVal{isBool: true, ok: true}
	case strings.HasPrefix(s, "#b"):
		n, ok := new(big.Int).SetString(s[2:], 2)
		return modelVal{n: n, ok: ok}
	case strings.HasPrefix(s, "#x"):
		n, ok := new(big.Int).SetString(s[2:], 16)
		return modelVal{n: n, ok: ok}
	case strings.HasPrefix(s, "(_ bv"):
		f := strings.Fields(s[5:])
		n, ok := new(big.Int).SetString(f[0], 10)
		return modelVal{n: n, ok: ok}
	case strings.HasPrefix(s, "(- "):
		n, ok := new(big.Int).SetString(strings.TrimSuffix(strings.TrimSpace(s[3:]), ")"), 10)
		if ok {
			n.Neg(n)
		}
		return modelVal{n: n, ok: ok}
	case strings.HasPrefix(s, "(fp "):
		f := strings.Fields(strings.TrimSuffix(s[4:], ")"))
		if len(f) == 3 {
			bits := func(x string) (uint64, int) {
				if strings.HasPrefix(x, "#b") {
					v, _ := strconv.ParseUint(x[2:], 2, 64)
					return v, len(x) - 2
				}
				v, _ := strconv.ParseUint(x[2:], 16, 64)
				return v, 4 * (len(x) - 2)
			}
			sg, _ := bits(f[0])
			ex, _ := bits(f[1])
			mn, _ := bits(f[2])
			return modelVal{isFP: true, fpBits: sg<<63 | ex<<52 | mn, ok: true}
		}
	case strings.HasPrefix(s, "(_ +zero"):
		return modelVal{isFP: true, fpBits: 0, ok: true}
	case strings.HasPrefix(s, "(_ -zero"):
		return modelVal{isFP: true, fpBits: 1 << 63, ok: true}
	case strings.HasPrefix(s, "(_ +oo"):
		return modelVal{isFP: true, fpBits: 0x7ff0000000000000, ok: true}
	case strings.HasPrefix(s, "(_ -oo"):
		return modelVal{isFP: true, fpBits: 0xfff0000000000000, ok: true}
	case strings.HasPrefix(s, "(_ NaN"):
		return modelVal{isFP: true, fpBits: 0x7ff8000000000000, ok: true}
	}
	if n, ok := new(big.Int).SetString(s, 10); ok {
		return modelVal{n: n, ok: true}
	}
	return modelVal{}
}

type replayBuilder struct {
	model   map[string]string
	pkg     *types.Package
	imports map[string]bool
	fail    string
	c       *Ctx
}

func (rb *replayBuilder) get(t Term) modelVal {
	if s, ok := rb.model[normTerm(t)]; ok {
		return parseModelVal(s)
	}
	// literals evaluate to themselves
	if mv := parseModelVal(t); mv.ok {
		return mv
	}
	return modelVal{}
}

func (rb *replayBuilder) typeName(t types.Type) string {
	return types.TypeString(t, func(p *types.Package) string {
		if p == rb.pkg {
			return ""
		}
		rb.imports[p.Path()] = true
		return p.Name()
	})
}

// goLit renders the model value of v as a Go expression of type t.
func (rb *replayBuilder) goLit(t types.Type, v Val) string {
	if n, ok := t.(*types.Named); ok && n.Obj().Name() == "OID" && n.Obj().Pkg() != nil && n.Obj().Pkg().Name() == "git" {
		mv := rb.get(v.Fields[0].T)
		if !mv.ok {
			rb.fail = "no model value for OID"
			return ""
		}
		hex := fmt.Sprintf("%040x", mv.n)
		if rb.pkg.Name() == "git" {
			return fmt.Sprintf("func() OID { o, _ := NewOID(%q); return o }()", hex)
		}
		rb.imports[n.Obj().Pkg().Path()] = true
		return fmt.Sprintf("func() git.OID { o, _ := git.NewOID(%q); return o }()", hex)
	}
	switch u := t.Underlying().(type) {
	case *types.Basic:
		switch {
		case u.Info()&types.IsBoolean != 0:
			mv := rb.get(v.T)
			if !mv.ok {
				return rb.typeName(t) + "(false)"
			}
			return fmt.Sprintf("%s(%t)", rb.typeName(t), mv.b)
		case u.Info()&types.IsInteger != 0:
			mv := rb.get(v.T)
			if !mv.ok || mv.n == nil {
				return rb.typeName(t) + "(0)"
			}
			n := new(big.Int).Set(mv.n)
			if v.Signed && n.Bit(v.W-1) == 1 {
				n.Sub(n, new(big.Int).Lsh(big.NewInt(1), uint(v.W)))
			}
			return fmt.Sprintf("%s(%s)", rb.typeName(t), n.String())
		case u.Info()&types.IsFloat != 0:
			mv := rb.get(v.T)
			rb.imports["math"] = true
			return fmt.Sprintf("%s(math.Float64frombits(0x%x))", rb.typeName(t), mv.fpBits)
		case u.Info()&types.IsString != 0:
			return fmt.Sprintf("%s(%s)", rb.typeName(t), rb.bytesLit(v, true))
		}
	case *types.Slice:
		if isByte(u.Elem()) {
			return fmt.Sprintf("%s(%s)", rb.typeName(t), rb.bytesLit(v, false))
		}
		ln := rb.get(v.Len)
		if ln.ok && ln.n.Sign() == 0 {
			return "nil"
		}
		if ln.ok && ln.n.IsInt64() && ln.n.Int64() <= 4 {
			var parts []string
			for i := int64(0); i < ln.n.Int64(); i++ {
				ev := rb.c.sliceElem(v, bvLit(64, uint64(i)))
				parts = append(parts, rb.goLit(u.Elem(), ev))
			}
			return fmt.Sprintf("%s{%s}", rb.typeName(t), strings.Join(parts, ", "))
		}
		rb.fail = "slice input not reconstructible"
		return "nil"
	case *types.Struct:
		var parts []string
		for i := 0; i < u.NumFields(); i++ {
			f := u.Field(i)
			if !f.Exported() && f.Pkg() != rb.pkg {
				rb.fail = "unexported field of another package: " + f.Name()
				continue
			}
			if _, isMu := f.Type().(*types.Named); isMu && strings.HasPrefix(f.Type().String(), "sync.") {
				continue
			}
			parts = append(parts, fmt.Sprintf("%s: %s", f.Name(), rb.goLit(f.Type(), v.Fields[i])))
		}
		return fmt.Sprintf("%s{%s}", rb.typeName(t), strings.Join(parts, ", "))
	case *types.Array:
		if v.K == KBV {
			mv := rb.get(v.T)
			n := int(u.Len())
			bs := make([]string, n)
			for i := 0; i < n; i++ {
				b := new(big.Int).Rsh(mv.n, uint(8*(n-1-i)))
				bs[i] = fmt.Sprint(b.Uint64() & 0xff)
			}
			return fmt.Sprintf("%s{%s}", rb.typeName(t), strings.Join(bs, ", "))
		}
	case *types.Pointer, *types.Map, *types.Chan, *types.Signature:
		mv := rb.get(v.T)
		if mv.ok && mv.n != nil && mv.n.Sign() == 0 {
			return "nil"
		}
		rb.fail = "pointer-typed input inside a value: " + t.String()
		return "nil"
	case *types.Interface:
		rb.fail = "interface-typed input: " + t.String()
		return "nil"
	}
	rb.fail = "unsupported input type " + t.String()
	return "nil"
}

func (rb *replayBuilder) bytesLit(v Val, asString bool) string {
	ln := rb.get(v.Len)
	if !ln.ok || ln.n == nil {
		return `""`
	}
	n := ln.n
	if n.Sign() < 0 || !n.IsInt64() || n.Int64() > 1<<20 {
		rb.fail = fmt.Sprintf("input length %s too large to materialise", n)
		return `""`
	}
	var sb strings.Builder
	sb.WriteString(`"`)
	for i := int64(0); i < n.Int64(); i++ {
		b := byte(0)
		if i < replayBytes {
			mv := rb.get(rb.c.sliceElem(v, bvLit(64, uint64(i))).T)
			if mv.ok && mv.n != nil {
				b = byte(mv.n.Uint64())
			}
		}
		fmt.Fprintf(&sb, `\x%02x`, b)
	}
	sb.WriteString(`"`)
	return sb.String()
}

// outExprs flattens an output of type t at Go expression e into printable leaves.
func outLeaves(e string, t types.Type, v Val, pkg *types.Package) (exprs []string, terms []Val) {
	switch u := t.Underlying().(type) {
	case *types.Basic:
		if u.Info()&(types.IsInteger|types.IsBoolean) != 0 {
			return []string{e}, []Val{v}
		}
	case *types.Struct:
		for i := 0; i < u.NumFields(); i++ {
			f := u.Field(i)
			if !f.Exported() && f.Pkg() != pkg {
				continue
			}
			es, ts := outLeaves(e+"."+f.Name(), f.Type(), v.Fields[i], pkg)
			exprs = append(exprs, es...)
			terms = append(terms, ts...)
		}
	}
	return
}

// onlyLenUsed: parameter i of fn is used only as the argument of len().
func onlyLenUsed(fn *ssa.Function, i int) bool {
	if i >= len(fn.Params) {
		return false
	}
	refs := fn.Params[i].Referrers()
	if refs == nil {
		return false
	}
	for _, r := range *refs {
		switch r := r.(type) {
		case *ssa.DebugRef:
		case *ssa.Call:
			b, ok := r.Call.Value.(*ssa.Builtin)
			if !ok || b.Name() != "len" {
				return false
			}
		default:
			return false
		}
	}
	return true
}

type ReplayFile struct {
	Property    string            `json:"property"`
	Obligation  string            `json:"obligation"`
	Kind        string            `json:"kind"`
	Function    string            `json:"function"`
	Text        string            `json:"clause"`
	Pos         string            `json:"position"`
	Status      string            `json:"solver_status"`
	Solver      string            `json:"solver"`
	Inputs      map[string]string `json:"model_inputs,omitempty"`
	Predicted   map[string]string `json:"predicted_outputs,omitempty"`
	Observed    map[string]string `json:"observed_outputs,omitempty"`
	Panic       string            `json:"observed_panic,omitempty"`
	Confirmed   bool              `json:"confirmed_on_real_code"`
	Verdict     string            `json:"verdict"`
	PkgDir      string            `json:"package_dir,omitempty"`
	TestSource  string            `json:"test_source,omitempty"`
	SolverOut   string            `json:"solver_output"`
	ReplayNote  string            `json:"replay_note,omitempty"`
	RunOutput   string            `json:"run_output,omitempty"`
}

// BuildReplay generates the test for obligation o of a function result.
func (v *Verifier) BuildReplay(res *FuncResult, o *Obligation) (src string, predicted map[string]string, outExprNames []string, note string) {
	rp := res.Plan
	if rp == nil || len(o.Model) == 0 {
		return "", nil, nil, "no model"
	}
	fn := rp.Fn
	rb := &replayBuilder{model: o.Model, pkg: fn.Pkg.Pkg, imports: map[string]bool{"fmt": true, "testing": true}, c: res.Ctx}
	var decls []string
	var argNames []string
	for i, p := range rp.Params {
		name := p.Name
		if name == "" || name == "_" {
			name = fmt.Sprintf("a%d", i)
		}
		argNames = append(argNames, name)
		if isString(p.Type) && onlyLenUsed(fn, i) {
			if ln := rb.get(p.Val.Len); ln.ok && ln.n != nil && ln.n.IsInt64() && ln.n.Int64() > 1<<20 {
				// the function reads only len(p): a fabricated string header is safe
				rb.imports["unsafe"] = true
				decls = append(decls, fmt.Sprintf("\tvar %s_b byte\n\t%s := *(*%s)(unsafe.Pointer(&struct {\n\t\tp unsafe.Pointer\n\t\tn int\n\t}{unsafe.Pointer(&%s_b), %d}))\n\t_ = %s",
					name, name, rb.typeName(p.Type), name, ln.n.Int64(), name))
				continue
			}
		}
		if pt, ok := p.Type.Underlying().(*types.Pointer); ok && p.Pointee != nil {
			lit := rb.goLit(pt.Elem(), *p.Pointee)
			decls = append(decls, fmt.Sprintf("\t%s := func() %s { x := %s; return &x }()", name, rb.typeName(p.Type), lit))
		} else {
			decls = append(decls, fmt.Sprintf("\t%s := %s", name, rb.goLit(p.Type, p.Val)))
		}
		decls = append(decls, fmt.Sprintf("\t_ = %s", name))
	}
	if rb.fail != "" {
		return "", nil, nil, "inputs not reconstructible: " + rb.fail
	}
	// call expression
	sig := fn.Signature
	var call string
	if sig.Recv() != nil {
		call = fmt.Sprintf("%s.%s(%s)", argNames[0], fn.Name(), strings.Join(argNames[1:], ", "))
	} else {
		call = fmt.Sprintf("%s(%s)", fn.Name(), strings.Join(argNames, ", "))
	}
	if fn.Signature.Variadic() {
		call = strings.TrimSuffix(call, ")") + "...)"
	}
	nres := sig.Results().Len()
	var rnames []string
	for i := 0; i < nres; i++ {
		rnames = append(rnames, fmt.Sprintf("r%d", i))
	}
	var body []string
	if nres > 0 {
		body = append(body, fmt.Sprintf("\t%s := %s", strings.Join(rnames, ", "), call))
		for _, r := range rnames {
			body = append(body, "\t_ = "+r)
		}
	} else {
		body = append(body, "\t"+call)
	}
	predicted = map[string]string{}
	for _, out := range rp.Outs {
		es, ts := outLeaves(out.GoExpr, out.Type, out.Val, fn.Pkg.Pkg)
		for k, e := range es {
			mv := rb.get(ts[k].T)
			if !mv.ok {
				continue
			}
			var pv string
			if mv.isBool {
				pv = fmt.Sprint(mv.b)
			} else {
				n := new(big.Int).Set(mv.n)
				if ts[k].Signed && n.Bit(ts[k].W-1) == 1 {
					n.Sub(n, new(big.Int).Lsh(big.NewInt(1), uint(ts[k].W)))
				}
				pv = n.String()
			}
			predicted[e] = pv
			outExprNames = append(outExprNames, e)
			body = append(body, fmt.Sprintf("\tfmt.Printf(\"VERIF-OUT %%s %%v\\n\", %q, %s)", e, e))
		}
	}
	var imps []string
	for p := range rb.imports {
		imps = append(imps, fmt.Sprintf("\t%q", p))
	}
	src = fmt.Sprintf("package %s\n\nimport (\n%s\n)\n\nfunc TestVerifReplay(t *testing.T) {\n\tdefer func() {\n\t\tif r := recover(); r != nil {\n\t\t\tfmt.Printf(\"VERIF-PANIC %%v\\n\", r)\n\t\t}\n\t}()\n%s\n%s\n\tfmt.Println(\"VERIF-DONE\")\n}\n",
		fn.Pkg.Pkg.Name(), strings.Join(imps, "\n"), strings.Join(decls, "\n"), strings.Join(body, "\n"))
	// result variable names r0.. are referred to by GoExpr of result outs
	return src, predicted, outExprNames, ""
}

// RunReplay executes a replay test against the real code in repo.
func RunReplay(repo, pkgPath, src string) (observed map[string]string, panicMsg string, done bool, raw string) {
	rel := strings.TrimPrefix(strings.TrimPrefix(pkgPath, modulePath), "/")
	dir := filepath.Join(repo, rel)
	tmp, err := os.MkdirTemp("", "verif-replay")
	if err != nil {
		return nil, "", false, err.Error()
	}
	defer os.RemoveAll(tmp)
	tf := filepath.Join(tmp, "zz_verif_replay_test.go")
	os.WriteFile(tf, []byte(src), 0o644)
	ov, _ := json.Marshal(map[string]interface{}{"Replace": map[string]string{filepath.Join(dir, "zz_verif_replay_test.go"): tf}})
	of := filepath.Join(tmp, "ov.json")
	os.WriteFile(of, ov, 0o644)
	cmd := exec.Command("go", "test", "-overlay", of, "-vet=off", "-v", "-count=1", "-timeout", "60s", "-run", "^TestVerifReplay$", ".")
	cmd.Dir = dir
	cmd.Env = append(os.Environ(), "GOFLAGS=-mod=mod", "GOPROXY=off", "GOSUMDB=off", "GOTOOLCHAIN=local")
	start := time.Now()
	out, _ := cmd.CombinedOutput()
	_ = start
	raw = string(out)
	observed = map[string]string{}
	for _, ln := range strings.Split(raw, "\n") {
		switch {
		case strings.HasPrefix(ln, "VERIF-OUT "):
			f := strings.SplitN(ln[len("VERIF-OUT "):], " ", 2)
			if len(f) == 2 {
				observed[f[0]] = f[1]
			}
		case strings.HasPrefix(ln, "VERIF-PANIC "):
			panicMsg = ln[len("VERIF-PANIC "):]
		case ln == "VERIF-DONE":
			done = true
		}
	}
	if panicMsg == "" && !done && strings.Contains(raw, "panic:") {
		k := strings.Index(raw, "panic:")
		panicMsg = strings.SplitN(raw[k:], "\n", 2)[0]
	}
	return
}
