package main

// instr.go — one case per go/ssa instruction kind.

import (
	"sort"
	"os"
	"fmt"
	"go/token"
	"go/types"
	"strings"

	"golang.org/x/tools/go/ssa"
)

func (ex *Exec) instr(b *ssa.BasicBlock, in ssa.Instruction) {
	c := ex.c
	r := ex.reach[b]
	switch in := in.(type) {
	case *ssa.DebugRef:
	case *ssa.Phi:
		if li := ex.loops[b]; li != nil {
			return // havocked in enterLoop
		}
		var v Val
		first := true
		for i := len(b.Preds) - 1; i >= 0; i-- {
			p := b.Preds[i]
			if _, ok := ex.reach[p]; !ok {
				continue
			}
			ev := ex.val(in.Edges[i])
			if first {
				v = ev
				first = false
			} else {
				v = c.iteVal(ex.edgeCond(p, b), ev, v)
			}
		}
		if first {
			v = c.zeroVal(in.Type())
		}
		v.Typ = in.Type()
		ex.set(in, v)
	case *ssa.Alloc:
		et := in.Type().Underlying().(*types.Pointer).Elem()
		a := ex.newObject(in.Name())
		c.store(ex.cur, a, et, c.zeroVal(et))
		ex.set(in, refVal(a, in.Type()))
	case *ssa.BinOp:
		ex.set(in, ex.binop(in, r))
	case *ssa.UnOp:
		ex.unop(in, r)
	case *ssa.Convert:
		ex.set(in, ex.convert(ex.val(in.X), in.X.Type(), in.Type(), in, r))
	case *ssa.ChangeType:
		v := ex.val(in.X)
		v.Typ = in.Type()
		ex.vals[in] = v
	case *ssa.ChangeInterface:
		v := ex.val(in.X)
		v.Typ = in.Type()
		ex.vals[in] = v
	case *ssa.MakeInterface:
		v := c.box(ex.val(in.X), in.X.Type())
		v.Typ = in.Type()
		ex.vals[in] = v
	case *ssa.TypeAssert:
		ex.typeAssert(in, r)
	case *ssa.Range:
		// Iteration over a map visits the entries in an order that Go
		// randomises on purpose; iteration over a string is ordered. Neither
		// is modelled in detail: Next yields arbitrary (ok, key, value).
		if _, isMap := in.X.Type().Underlying().(*types.Map); isMap {
			ex.addObl("unordered-iteration", "", r, "false", in.Pos(),
				"range over a map: the iteration order is unspecified (Go randomises it), so nothing that depends on the order of the entries can be established", false)
		}
		ex.vals[in] = Val{K: KRef, T: "0", Typ: in.Type()}
	case *ssa.Next:
		tt := in.Type().(*types.Tuple)
		tv := Val{K: KTuple, Typ: tt}
		for i := 0; i < tt.Len(); i++ {
			ft := tt.At(i).Type()
			if b, ok := ft.(*types.Basic); ok && b.Kind() == types.Invalid {
				tv.Fields = append(tv.Fields, Val{K: KLit, T: "unavailable"})
				continue
			}
			fv := c.freshVal(ft, ex.nm("next"))
			fv.Typ = ft
			c.assume(ex.v.wfAssume(c, fv))
			tv.Fields = append(tv.Fields, fv)
		}
		ex.vals[in] = tv
	case *ssa.Extract:
		t := ex.val(in.Tuple)
		v := t.Fields[in.Index]
		v.Typ = in.Type()
		ex.vals[in] = v
	case *ssa.Field:
		s := ex.val(in.X)
		v := s.Fields[in.Field]
		v.Typ = in.Type()
		ex.vals[in] = v
	case *ssa.FieldAddr:
		base := ex.val(in.X)
		pt := in.X.Type().Underlying().(*types.Pointer)
		if base.EP != nil && base.EP.Slice != nil {
			// address of a field of a slice element
			ep := *base.EP
			ep.FieldPath = append(append([]int{}, base.EP.FieldPath...), in.Field)
			ex.vals[in] = Val{K: KRef, Typ: in.Type(), EP: &ep}
			return
		}
		if ex.top.nilcheck {
			ex.addObl("nil", "", r, not(eq(base.T, "0")), in.Pos(), "nil dereference", true)
		}
		ex.set(in, refVal(c.fieldAddr(base.T, pt.Elem(), in.Field), in.Type()))
	case *ssa.Index:
		x := ex.val(in.X)
		if isString(in.X.Type()) {
			i := ex.idx64(ex.val(in.Index))
			ex.addObl("bounds", "", r, and(app("bvsle", bvLit(64, 0), i), app("bvslt", i, x.Len)), in.Pos(),
				"index out of range: "+ex.v.srcLine(in.Pos()), true)
			ex.set(in, c.sliceElem(x, i))
			return
		}
		at := in.X.Type().Underlying().(*types.Array)
		if k, ok := in.Index.(*ssa.Const); ok {
			i := int(k.Int64())
			if x.K == KBV {
				ex.set(in, byteOfArr(x, int(at.Len()), i))
			} else {
				ex.set(in, x.Fields[i])
			}
			return
		}
		unsup("array index with symbolic index")
	case *ssa.IndexAddr:
		ex.indexAddr(in, r)
	case *ssa.Lookup:
		ex.lookup(in, r)
	case *ssa.Slice:
		ex.slice(in, r)
	case *ssa.Store:
		ex.storeInstr(in, r)
	case *ssa.MapUpdate:
		m := ex.val(in.Map)
		mt := in.Map.Type().Underlying().(*types.Map)
		c.mapUpdate(ex.cur, m.T, mt, c.mapKey(mt, ex.val(in.Key)), ex.val(in.Value))
	case *ssa.MakeMap:
		a := ex.newObject(in.Name())
		c.mapInit(ex.cur, a, in.Type().Underlying().(*types.Map))
		ex.set(in, refVal(a, in.Type()))
	case *ssa.MakeChan:
		ex.set(in, refVal(ex.newObject(in.Name()), in.Type()))
	case *ssa.MakeSlice:
		st := in.Type().Underlying().(*types.Slice)
		n := ex.val(in.Len)
		ex.addObl("bounds", "", r, app("bvsge", extend(n, 64), bvLit(64, 0)), in.Pos(), "makeslice: len out of range", true)
		var arrs []Term
		for _, s := range c.leafSorts(st.Elem()) {
			arrs = append(arrs, c.constArr(s))
		}
		ex.set(in, Val{K: KSlice, Typ: in.Type(), Arr: arrs, Off: bvLit(64, 0), Len: extend(n, 64), Elem: st.Elem()})
	case *ssa.MakeClosure:
		a := ex.newObject(in.Name())
		ex.v.closures[a] = in
		ex.top.closureVals[a] = in
		ex.set(in, refVal(a, in.Type()))
	case *ssa.Call:
		ex.call(in, in.Common(), r)
	case *ssa.Defer:
		ex.defers = append(ex.defers, in)
	case *ssa.RunDefers:
		ex.runDefers(r)
	case *ssa.Go:
		c.dropped["go statement: the spawn is ignored in the spawning function"] = true
	case *ssa.Send:
		c.dropped["channel send: no effect"] = true
	case *ssa.Select:
		c.dropped["select: nondeterministic choice with havocked results"] = true
		v := c.freshVal(in.Type(), ex.nm(in.Name()))
		if tv := v; len(tv.Fields) > 0 && tv.Fields[0].K == KBV {
			n := len(in.States)
			lo := 0
			if !in.Blocking {
				lo = -1
			}
			idx := tv.Fields[0].T
			c.assume(and(app("bvsge", idx, ex.intLit(lo)), app("bvslt", idx, ex.intLit(n))))
		}
		ex.vals[in] = v
	case *ssa.Return:
		// A block that only joins several paths and returns (phis, debug
		// refs, the return) is treated as one return site per incoming edge:
		// postconditions are then judged in each path's own memory instead of
		// an ite-merged one (if/else versus early return must not matter).
		if len(b.Preds) > 1 && ex == ex.top {
			pure := true
			for _, bi := range b.Instrs {
				switch bi.(type) {
				case *ssa.Phi, *ssa.DebugRef, *ssa.Return:
				default:
					pure = false
				}
			}
			for _, p := range b.Preds {
				if isBackEdge(p, b) || ex.memOut[p] == nil {
					pure = false
				}
			}
			if pure {
				for _, p := range b.Preds {
					var vs []Val
					for _, x := range in.Results {
						if phi, ok := x.(*ssa.Phi); ok && phi.Block() == b {
							vs = append(vs, ex.phiEdgeVal(phi, b, p))
						} else {
							vs = append(vs, ex.val(x))
						}
					}
					ex.rets = append(ex.rets, retInfo{reach: ex.edgeCond(p, b), vals: vs, mem: ex.memOut[p].clone()})
				}
				return
			}
		}
		var vs []Val
		for _, x := range in.Results {
			vs = append(vs, ex.val(x))
		}
		ex.rets = append(ex.rets, retInfo{reach: r, vals: vs, mem: ex.cur.clone()})
	case *ssa.Panic:
		txt := "explicit panic"
		if mi, ok := in.X.(*ssa.MakeInterface); ok {
			if k, ok := mi.X.(*ssa.Const); ok {
				txt = "panic(" + k.Value.ExactString() + ")"
			}
		}
		if tag := ex.top.fc; tag != nil && ex == ex.top && tag.Options["assume-nopanic"] != "" {
			// an explicit panic that guards an assumption about the environment
			c.assume(imp(r, "false"))
			c.trusted[tag.Options["assume-nopanic"]+": "+txt+" is assumed unreachable in "+ex.fname] = true
			return
		}
		ex.addObl("nopanic", "", r, "false", in.Pos(), txt, true)
	case *ssa.Jump:
		if s := b.Succs[0]; isBackEdge(b, s) {
			ex.backEdge(b, s)
		}
		ex.breakEdges(b)
	case *ssa.If:
		for _, s := range b.Succs {
			if isBackEdge(b, s) {
				ex.backEdge(b, s)
			}
		}
		ex.breakEdges(b)
	default:
		unsup("instruction %T (%s)", in, in)
	}
}

func (ex *Exec) intLit(n int) Term {
	if n < 0 {
		return app("bvneg", bvLit(64, uint64(-n)))
	}
	return bvLit(64, uint64(n))
}

// newObject returns the address of a freshly allocated object.
func (ex *Exec) newObject(hint string) Term {
	c := ex.c
	a := c.declConst(c.fresh(ex.nm("alloc_"+hint)), SRef)
	ts := []Term{app(">", a, "0"), eq(app("ftag", a), "0"), eq(app("froot", a), a), app("isfresh", a)}
	// allocation sites are totally ordered (hence pairwise distinct) — linear size
	if n := len(*ex.top.allocs); n > 0 {
		ts = append(ts, app(">", a, (*ex.top.allocs)[n-1]))
	}
	for _, k := range ex.top.known {
		ts = append(ts, not(eq(a, k)), not(eq(a, app("froot", k))))
	}
	// every reference value obtained (loaded, returned by a call) before this
	// allocation is older than it: addresses are abstract and may be taken
	// to be ordered by allocation time
	for _, k := range ex.top.recent {
		ts = append(ts, app(">", a, k))
	}
	ex.top.recent = nil
	ex.top.recentSeen = map[Term]bool{}
	if ex.top.fc != nil && ex.top.fc.Options["heap-order"] != "" {
		// opt-in, quantified form of the same fact: no reference stored
		// anywhere in the heap (pointer cells, map values) is the new object
		var ks []string
		for k := range memSorts {
			ks = append(ks, k)
		}
		sort.Strings(ks)
		for _, k := range ks {
			so := memSorts[k]
			_, touched := ex.cur.m[k]
			if !touched && !c.memDecl["|"+k+"|"] {
				continue
			}
			m := c.memRaw(ex.cur, k)
			switch {
			case so == arrSort(SRef, SRef):
				c.hasQ = true
				ts = append(ts, fmt.Sprintf("(forall ((ha Int)) (! (< (select %s ha) %s) :pattern ((select %s ha))))", m, a, m))
			case strings.HasPrefix(k, "Mmap ") && strings.Contains(k, " val") && strings.HasSuffix(so, " "+SRef+"))"):
				inner := so[len("(Array Int (Array ") : len(so)-len(" "+SRef+"))")]
				c.hasQ = true
				ts = append(ts, fmt.Sprintf("(forall ((hm Int) (hk %s)) (! (< (select (select %s hm) hk) %s) :pattern ((select (select %s hm) hk))))", inner, m, a, m))
			}
		}
	}
	c.assume(and(ts...))
	*ex.top.allocs = append(*ex.top.allocs, a)
	return a
}

// noteRefs records the reference leaves of a value that exists now, for the
// ordering fact asserted at the next allocation.
func (ex *Exec) noteRefs(v Val) {
	t := ex.top
	if os.Getenv("VCGEN_NORECENT") != "" {
		return
	}
	if t.recentSeen == nil {
		t.recentSeen = map[Term]bool{}
	}
	var walk func(x Val)
	walk = func(x Val) {
		switch x.K {
		case KRef:
			if x.T == "0" || x.T == "" || t.recentSeen[x.T] || len(t.recent) > 64 {
				return
			}
			for _, tok := range sexprTokens(x.T) {
				if ex.c.bound[tok] {
					return
				}
			}
			t.recentSeen[x.T] = true
			t.recent = append(t.recent, x.T)
		case KStruct, KTuple:
			for _, f := range x.Fields {
				walk(f)
			}
		}
	}
	walk(v)
}

// isNarrowCounter: a plain integer type of fewer than 64 bits (not a byte
// used as data, not one of the saturating Count types).
func isNarrowCounter(t types.Type) bool {
	if isCountType(t) {
		return false
	}
	b, ok := t.Underlying().(*types.Basic)
	if !ok {
		return false
	}
	switch b.Kind() {
	case types.Int8, types.Int16, types.Int32, types.Uint16, types.Uint32:
		return true
	case types.Uint8:
		_, named := t.(*types.Named)
		return named || true
	}
	return false
}

// bvSAddOverflow: signed overflow of x + y at width w, without relying on the
// solver's bvsaddo (not in every installed version).
func bvSAddOverflow(x, y Term, w int) Term {
	sum := app("bvadd", x, y)
	zero := bvLit(w, 0)
	xneg, yneg, sneg := app("bvslt", x, zero), app("bvslt", y, zero), app("bvslt", sum, zero)
	return or(and(not(xneg), not(yneg), sneg), and(xneg, yneg, not(sneg)))
}

func isCountType(t types.Type) bool {
	n, ok := t.(*types.Named)
	if !ok || n.Obj().Pkg() == nil {
		return false
	}
	return n.Obj().Pkg().Name() == "counts" && (n.Obj().Name() == "Count32" || n.Obj().Name() == "Count64")
}

func (ex *Exec) binop(in *ssa.BinOp, r Term) Val {
	c := ex.c
	x, y := ex.val(in.X), ex.val(in.Y)
	switch in.Op {
	case token.EQL:
		return boolVal(c.equalVals(ex.cmpCoerce(x, y)))
	case token.NEQ:
		return boolVal(not(c.equalVals(ex.cmpCoerce(x, y))))
	}
	switch x.K {
	case KBool:
		switch in.Op {
		case token.AND, token.LAND:
			return boolVal(and(x.T, y.T))
		case token.OR, token.LOR:
			return boolVal(or(x.T, y.T))
		}
	case KBV:
		signed := x.Signed
		res := x
		res.Typ = in.Type()
		cmp := func(u, s string) Val {
			if signed {
				return boolVal(app(s, x.T, y.T))
			}
			return boolVal(app(u, x.T, y.T))
		}
		switch in.Op {
		case token.ADD:
			res.T = app("bvadd", x.T, y.T)
			if ex.top.sweep && isCountType(in.Type()) {
				ex.addObl("overflow", "", r, app("bvuge", res.T, x.T), in.Pos(), "Count addition wraps: "+in.String(), false)
			}
			if ex.top.fc != nil && ex.top.fc.Options["intoverflow"] != "" && signed {
				ex.addObl("overflow", "", r, not(app("bvsaddo", x.T, y.T)), in.Pos(), "signed addition overflows", false)
			}
			// narrow integers (int8/16/32, uint8/16/32) that count things wrap
			// long before memory runs out; 64-bit ones are covered by A-MACHINE
			if ex.top.sweep && isNarrowCounter(in.Type()) {
				if signed {
					ex.addObl("overflow", "", r, not(bvSAddOverflow(x.T, y.T, x.W)), in.Pos(), "narrow signed addition wraps: "+in.String(), false)
				} else {
					ex.addObl("overflow", "", r, app("bvuge", res.T, x.T), in.Pos(), "narrow unsigned addition wraps: "+in.String(), false)
				}
			}
		case token.SUB:
			res.T = app("bvsub", x.T, y.T)
			if ex.top.sweep && isCountType(in.Type()) {
				ex.addObl("overflow", "", r, app("bvuge", x.T, y.T), in.Pos(), "Count subtraction wraps: "+in.String(), false)
			}
		case token.MUL:
			res.T = app("bvmul", x.T, y.T)
			if ex.top.sweep && isCountType(in.Type()) {
				ex.addObl("overflow", "", r, not(app("bvumul_noovfl_neg", x.T, y.T)), in.Pos(), "Count multiplication wraps", false)
			}
		case token.QUO:
			ex.addObl("div", "", r, not(eq(y.T, bvLit(y.W, 0))), in.Pos(), "division by zero", true)
			if signed {
				res.T = app("bvsdiv", x.T, y.T)
			} else {
				res.T = app("bvudiv", x.T, y.T)
			}
		case token.REM:
			ex.addObl("div", "", r, not(eq(y.T, bvLit(y.W, 0))), in.Pos(), "division by zero", true)
			if signed {
				res.T = app("bvsrem", x.T, y.T)
			} else {
				res.T = app("bvurem", x.T, y.T)
			}
		case token.AND:
			res.T = app("bvand", x.T, y.T)
		case token.OR:
			res.T = app("bvor", x.T, y.T)
		case token.XOR:
			res.T = app("bvxor", x.T, y.T)
		case token.AND_NOT:
			res.T = app("bvand", x.T, app("bvnot", y.T))
		case token.SHL, token.SHR:
			cnt := y.T
			var big Term = "false"
			if y.W > x.W {
				big = app("bvuge", y.T, bvLit(y.W, uint64(x.W)))
				cnt = fmt.Sprintf("((_ extract %d 0) %s)", x.W-1, y.T)
			} else if y.W < x.W {
				cnt = fmt.Sprintf("((_ zero_extend %d) %s)", x.W-y.W, y.T)
			}
			if y.Signed {
				ex.addObl("shift", "", r, app("bvsge", y.T, bvLit(y.W, 0)), in.Pos(), "negative shift count", true)
			}
			switch {
			case in.Op == token.SHL:
				res.T = iteT(big, bvLit(x.W, 0), app("bvshl", x.T, cnt))
			case signed:
				res.T = iteT(big, app("bvashr", x.T, bvLit(x.W, uint64(x.W-1))), app("bvashr", x.T, cnt))
			default:
				res.T = iteT(big, bvLit(x.W, 0), app("bvlshr", x.T, cnt))
			}
		case token.LSS:
			return cmp("bvult", "bvslt")
		case token.LEQ:
			return cmp("bvule", "bvsle")
		case token.GTR:
			return cmp("bvugt", "bvsgt")
		case token.GEQ:
			return cmp("bvuge", "bvsge")
		default:
			unsup("binop %s on integers", in.Op)
		}
		return res
	case KF64:
		c.hasFP = true
		res := Val{K: KF64, Typ: in.Type()}
		switch in.Op {
		case token.ADD:
			res.T = app("fp.add RNE", x.T, y.T)
		case token.SUB:
			res.T = app("fp.sub RNE", x.T, y.T)
		case token.MUL:
			res.T = app("fp.mul RNE", x.T, y.T)
		case token.QUO:
			res.T = app("fp.div RNE", x.T, y.T)
		case token.LSS:
			return boolVal(app("fp.lt", x.T, y.T))
		case token.LEQ:
			return boolVal(app("fp.leq", x.T, y.T))
		case token.GTR:
			return boolVal(app("fp.gt", x.T, y.T))
		case token.GEQ:
			return boolVal(app("fp.geq", x.T, y.T))
		default:
			unsup("binop %s on floats", in.Op)
		}
		return res
	case KSlice:
		if in.Op == token.ADD && isString(in.Type()) {
			return ex.concat(x, y, in.Type())
		}
		if isString(in.X.Type()) {
			// ordered string comparison: abstract
			c.dropped["ordered string comparison: uninterpreted"] = true
			return boolVal(c.declConst(c.fresh("strcmp"), SBool))
		}
	}
	unsup("binop %s on %s", in.Op, in.X.Type())
	return Val{}
}

func (ex *Exec) cmpCoerce(x, y Val) (Val, Val) { return x, y }

// concat models string concatenation: a fresh string whose length is the sum
// and whose bytes are those of the operands; its key is catkey of the keys.
func (ex *Exec) concat(x, y Val, t types.Type) Val {
	c := ex.c
	asort := arrSort(bvSort(64), bvSort(8))
	arr := c.declConst(c.fresh("cat"), asort)
	ln := c.define("catlen", bvSort(64), app("bvadd", x.Len, y.Len))
	res := Val{K: KSlice, Typ: t, Arr: []Term{arr}, Off: bvLit(64, 0), Len: ln, Elem: types.Typ[types.Uint8]}
	// content: pointwise for literal operands (finite), quantified otherwise
	emitPart := func(part Val, base Term) {
		if lit, ok := c.constOfStr(part); ok && len(lit) <= maxLitExpand {
			for i := 0; i < len(lit); i++ {
				c.assume(eq(app("select", arr, app("bvadd", base, bvLit(64, uint64(i)))), bvLit(8, uint64(lit[i]))))
			}
			return
		}
		k := c.fresh("k")
		c.bound[k] = true
		c.hasQ = true
		c.assume(fmt.Sprintf("(forall ((%s (_ BitVec 64))) (! %s :pattern ((select %s (bvadd %s %s)))))", k,
			imp(and(app("bvsle", bvLit(64, 0), k), app("bvslt", k, part.Len)),
				eq(app("select", arr, app("bvadd", base, k)), c.sliceElem(part, k).T)), arr, base, k))
	}
	emitPart(x, bvLit(64, 0))
	emitPart(y, x.Len)
	c.declFun("catkey", []string{SKey, SKey}, SKey)
	c.assume(eq(c.strKey(res), app("catkey", c.strKey(x), c.strKey(y))))
	return res
}

func (ex *Exec) unop(in *ssa.UnOp, r Term) {
	c := ex.c
	x := ex.val(in.X)
	switch in.Op {
	case token.MUL:
		et := in.X.Type().Underlying().(*types.Pointer).Elem()
		if x.EP != nil {
			ex.set(in, ex.loadElem(x, et))
			return
		}
		if ex.top.nilcheck {
			ex.addObl("nil", "", r, not(eq(x.T, "0")), in.Pos(), "nil dereference", true)
		}
		v := c.load(ex.cur, x.T, et)
		v.Typ = in.Type()
		c.assume(imp(r, ex.v.wfAssume(c, v)))
		ex.noteRefs(v)
		ex.set(in, v)
	case token.NOT:
		ex.set(in, boolVal(not(x.T)))
	case token.SUB:
		if x.K == KF64 {
			ex.set(in, Val{K: KF64, T: app("fp.neg", x.T)})
		} else {
			x.T = app("bvneg", x.T)
			ex.set(in, x)
		}
	case token.XOR:
		x.T = app("bvnot", x.T)
		ex.set(in, x)
	case token.ARROW:
		c.dropped["channel receive: havocked value"] = true
		ex.recvJustified(in, r)
		v := c.freshVal(in.Type(), ex.nm(in.Name()))
		v.Typ = in.Type()
		ex.vals[in] = v
	default:
		unsup("unop %s", in.Op)
	}
}

func (ex *Exec) convert(x Val, from, to types.Type, in ssa.Instruction, r Term) Val {
	c := ex.c
	fu, tu := from.Underlying(), to.Underlying()
	if tb, ok := tu.(*types.Basic); ok {
		if w, s, ok := basicBV(tb); ok {
			switch x.K {
			case KBV:
				res := bvVal("", w, s, to)
				switch {
				case x.W == w:
					res.T = x.T
				case x.W > w:
					res.T = fmt.Sprintf("((_ extract %d 0) %s)", w-1, x.T)
				default:
					res.T = extend(x, w)
				}
				return res
			case KF64:
				c.hasFP = true
				f := "fp.to_ubv"
				if s {
					f = "fp.to_sbv"
				}
				// Go leaves out-of-range conversions implementation-defined:
				// obligation that the value is in range.
				lo, hi := fpOfFloat(-9223372036854775808.0), fpOfFloat(9223372036854775808.0)
				if !s {
					lo, hi = fpOfFloat(-1), fpOfFloat(18446744073709551616.0)
				}
				if w == 64 {
					ex.addObl("fconv", "", r, and(not(app("fp.isNaN", x.T)), app("fp.gt", x.T, iteT(fmt.Sprint(s), fpOfFloat(-9223372036854777856.0), lo)), app("fp.lt", x.T, hi)), in.Pos(), "float→int conversion out of range", false)
				}
				return bvVal(fmt.Sprintf("((_ %s %d) RTZ %s)", f, w, x.T), w, s, to)
			}
		}
		if tb.Kind() == types.Float64 {
			c.hasFP = true
			switch x.K {
			case KBV:
				if x.Signed {
					return Val{K: KF64, T: app("(_ to_fp 11 53) RNE", x.T), Typ: to}
				}
				return Val{K: KF64, T: app("(_ to_fp_unsigned 11 53) RNE", x.T), Typ: to}
			case KF64:
				x.Typ = to
				return x
			}
		}
		if tb.Info()&types.IsString != 0 {
			if x.K == KSlice && len(x.Arr) == 1 {
				x.Typ = to
				x.Elem = types.Typ[types.Uint8]
				return x
			}
		}
		if tb.Kind() == types.UnsafePointer {
			x.Typ = to
			return x
		}
	}
	if ts, ok := tu.(*types.Slice); ok && isByte(ts.Elem()) {
		if x.K == KSlice && len(x.Arr) == 1 {
			x.Typ = to
			x.Elem = ts.Elem()
			return x
		}
	}
	if _, ok := tu.(*types.Pointer); ok && x.K == KRef {
		x.Typ = to
		return x
	}
	// Rune conversions decode / encode UTF-8, which is not modelled: the
	// result is a fresh value constrained only by the length bounds that hold
	// for every input (one rune per 1..4 bytes; one invalid byte is one rune).
	isRune := func(t types.Type) bool {
		b, ok := t.Underlying().(*types.Basic)
		return ok && b.Kind() == types.Int32
	}
	hint := "conv"
	if v, ok := in.(ssa.Value); ok {
		hint = ex.nm(v.Name())
	}
	if ts, ok := tu.(*types.Slice); ok && isRune(ts.Elem()) && x.K == KSlice {
		c.trusted["A-UTF8: string -> []rune conversion is not decoded: fresh slice with floor(len(s)/4) <= len <= len(s)"] = true
		res := c.freshVal(to, hint)
		res.Typ = to
		c.assume(imp(r, and(ex.v.wfAssume(c, res),
			app("bvsle", res.Len, x.Len), app("bvsle", app("bvsdiv", x.Len, bvLit(64, 4)), res.Len),
			imp(app("bvsgt", x.Len, bvLit(64, 0)), app("bvsgt", res.Len, bvLit(64, 0))))))
		return res
	}
	if tb, ok := tu.(*types.Basic); ok && tb.Info()&types.IsString != 0 {
		if fs, ok := fu.(*types.Slice); ok && isRune(fs.Elem()) && x.K == KSlice {
			c.trusted["A-UTF8: []rune -> string conversion is not encoded: fresh string with len(r) <= len <= 4*len(r)"] = true
			res := c.freshVal(to, hint)
			res.Typ = to
			c.assume(imp(r, and(ex.v.wfAssume(c, res),
				app("bvsle", x.Len, res.Len), app("bvsle", app("bvsdiv", res.Len, bvLit(64, 4)), x.Len))))
			return res
		}
		if x.K == KBV {
			c.trusted["A-UTF8: integer -> string conversion is not encoded: fresh string with 1 <= len <= 4"] = true
			res := c.freshVal(to, hint)
			res.Typ = to
			c.assume(imp(r, and(ex.v.wfAssume(c, res),
				app("bvsle", bvLit(64, 1), res.Len), app("bvsle", res.Len, bvLit(64, 4)))))
			return res
		}
	}
	unsup("conversion %s -> %s", from, to)
	return Val{}
}

func (ex *Exec) typeAssert(in *ssa.TypeAssert, r Term) {
	c := ex.c
	x := ex.val(in.X)
	var ok Term
	var v Val
	if _, isI := in.AssertedType.Underlying().(*types.Interface); isI {
		fn := ex.v.implPred(c, in.AssertedType)
		ok = and(not(eq(x.T, "inil")), app(fn, app("itag", x.T)))
		v = x
		v.Typ = in.AssertedType
	} else {
		ok = eq(app("itag", x.T), fmt.Sprint(c.ifaceTag(in.AssertedType)))
		v = c.unbox(ex.cur, x.T, in.AssertedType)
		v.Typ = in.AssertedType
	}
	if in.CommaOk {
		ex.vals[in] = Val{K: KTuple, Typ: in.Type(), Fields: []Val{v, boolVal(c.define("taok", SBool, ok))}}
		return
	}
	ex.addObl("typeassert", "", r, ok, in.Pos(), "type assertion may fail", true)
	ex.vals[in] = v
}

// implPred: the predicate "the dynamic type with this tag implements the
// interface"; which named types of the module do is decided by the type checker.
func (v *Verifier) implPred(c *Ctx, ifaceT types.Type) string {
	fn := "|impl " + typeKey(ifaceT) + "|"
	if c.funDecl[fn] {
		return fn
	}
	c.declFun(fn, []string{"Int"}, SBool)
	it := ifaceT.Underlying().(*types.Interface)
	var paths []string
	for pth := range v.tpkgs {
		if strings.HasPrefix(pth, modulePath) {
			paths = append(paths, pth)
		}
	}
	sort.Strings(paths)
	for _, pth := range paths {
		sc := v.tpkgs[pth].Scope()
		for _, nm := range sc.Names() {
			tn, isT := sc.Lookup(nm).(*types.TypeName)
			if !isT || tn.IsAlias() {
				continue
			}
			if _, isIface := tn.Type().Underlying().(*types.Interface); isIface {
				continue
			}
			for _, ct := range []types.Type{tn.Type(), types.NewPointer(tn.Type())} {
				val := "false"
				if types.Implements(ct, it) {
					val = "true"
				}
				c.assume(eq(app(fn, fmt.Sprint(c.ifaceTag(ct))), val))
			}
		}
	}
	return fn
}

// ---------------------------------------------------------------- indexing

func (ex *Exec) idx64(v Val) Term { return extend(v, 64) }

func (ex *Exec) indexAddr(in *ssa.IndexAddr, r Term) {
	x := ex.val(in.X)
	i := ex.idx64(ex.val(in.Index))
	switch xt := in.X.Type().Underlying().(type) {
	case *types.Slice:
		ex.addObl("bounds", "", r, and(app("bvsle", bvLit(64, 0), i), app("bvslt", i, x.Len)), in.Pos(),
			"index out of range: "+ex.v.srcLine(in.Pos()), true)
		base := x
		ex.vals[in] = Val{K: KRef, Typ: in.Type(), T: "", EP: &elemPtr{Slice: &base, Idx: i, SliceSSA: in.X}}
	case *types.Pointer:
		at := xt.Elem().Underlying().(*types.Array)
		ex.addObl("bounds", "", r, and(app("bvsle", bvLit(64, 0), i), app("bvslt", i, bvLit(64, uint64(at.Len())))), in.Pos(),
			"index out of range: "+ex.v.srcLine(in.Pos()), true)
		k, isConst := in.Index.(*ssa.Const)
		if !isConst {
			unsup("symbolic index into array in memory")
		}
		idx := int(k.Int64())
		if isByte(at.Elem()) && at.Len() <= 64 {
			ex.vals[in] = Val{K: KRef, Typ: in.Type(), EP: &elemPtr{ArrAddr: x.T, ArrType: xt.Elem(), ConstIdx: idx}}
		} else {
			ex.vals[in] = refVal(ex.c.fieldAddr(x.T, xt.Elem(), idx), in.Type())
		}
	default:
		unsup("IndexAddr on %s", in.X.Type())
	}
}

type elemPtr struct {
	Slice     *Val
	SliceSSA  ssa.Value
	FieldPath []int
	Idx       Term
	ArrAddr  Term
	ArrType  types.Type
	ConstIdx int
}

func (ex *Exec) loadElem(p Val, et types.Type) Val {
	if p.EP.Slice != nil {
		cur := *p.EP.Slice
		if p.EP.SliceSSA != nil {
			if nv, ok := ex.vals[p.EP.SliceSSA]; ok && nv.K == KSlice {
				cur = nv // element stores update the slice value in place
			}
		}
		v := ex.c.sliceElem(cur, p.EP.Idx)
		for _, f := range p.EP.FieldPath {
			v = v.Fields[f]
		}
		v.Typ = et
		return v
	}
	arr := ex.c.load(ex.cur, p.EP.ArrAddr, p.EP.ArrType)
	n := int(p.EP.ArrType.Underlying().(*types.Array).Len())
	return byteOfArr(arr, n, p.EP.ConstIdx)
}

func (ex *Exec) storeInstr(in *ssa.Store, r Term) {
	c := ex.c
	a := ex.val(in.Addr)
	v := ex.val(in.Val)
	et := in.Addr.Type().Underlying().(*types.Pointer).Elem()
	if a.EP != nil {
		if a.EP.Slice != nil {
			// Element store into a slice. Slices are values in this model, so
			// the store produces an updated slice value; it replaces the SSA
			// value it was taken from and, when that value was loaded from a
			// variable's memory cell, it is written back to that cell (the
			// cell still holds the same backing array). Other aliases of the
			// backing array are not updated (A-SLICE-VALUE).
			sv := a.EP.SliceSSA
			if sv == nil {
				unsup("store through slice element pointer without origin")
			}
			cur, ok := ex.vals[sv]
			if !ok || cur.K != KSlice {
				unsup("store through slice element pointer: unknown slice")
			}
			elem := c.sliceElem(cur, a.EP.Idx)
			var setPath func(e Val, path []int, nv Val) Val
			setPath = func(e Val, path []int, nv Val) Val {
				if len(path) == 0 {
					return nv
				}
				ne := e
				ne.Fields = append([]Val{}, e.Fields...)
				ne.Fields[path[0]] = setPath(e.Fields[path[0]], path[1:], nv)
				return ne
			}
			ne := setPath(elem, a.EP.FieldPath, v)
			ls := leaves(ne)
			upd := cur
			upd.Arr = append([]Term{}, cur.Arr...)
			idx := app("bvadd", cur.Off, a.EP.Idx)
			for k := range upd.Arr {
				upd.Arr[k] = c.define("elemst", arrSort(bvSort(64), c.leafSorts(cur.Elem)[k]), app("store", upd.Arr[k], idx, ls[k]))
			}
			upd.Typ = sv.Type()
			ex.vals[sv] = upd
			if ld, ok := sv.(*ssa.UnOp); ok && ld.Op == token.MUL {
				if av, ok := ex.vals[ld.X]; ok && av.K == KRef && av.EP == nil && av.T != "" {
					c.store(ex.cur, av.T, sv.Type(), upd)
				}
			}
			return
		}
		arr := c.load(ex.cur, a.EP.ArrAddr, a.EP.ArrType)
		n := int(a.EP.ArrType.Underlying().(*types.Array).Len())
		i := a.EP.ConstIdx
		var parts []Term
		if i > 0 {
			parts = append(parts, fmt.Sprintf("((_ extract %d %d) %s)", 8*n-1, 8*(n-i), arr.T))
		}
		parts = append(parts, v.T)
		if i < n-1 {
			parts = append(parts, fmt.Sprintf("((_ extract %d 0) %s)", 8*(n-i-1)-1, arr.T))
		}
		nv := arr
		if len(parts) > 1 {
			nv.T = app("concat", parts...)
		} else {
			nv.T = parts[0]
		}
		c.store(ex.cur, a.EP.ArrAddr, a.EP.ArrType, nv)
		return
	}
	if ex.top.nilcheck {
		ex.addObl("nil", "", r, not(eq(a.T, "0")), in.Pos(), "nil dereference", true)
	}
	c.store(ex.cur, a.T, et, v)
}

func (ex *Exec) lookup(in *ssa.Lookup, r Term) {
	c := ex.c
	x := ex.val(in.X)
	if mt, ok := in.X.Type().Underlying().(*types.Map); ok {
		ok, v := c.mapLookup(ex.cur, x.T, mt, c.mapKey(mt, ex.val(in.Index)))
		v.Typ = mt.Elem()
		if in.CommaOk {
			ex.vals[in] = Val{K: KTuple, Typ: in.Type(), Fields: []Val{c.nameVal(v, ex.nm(in.Name())), boolVal(c.define(ex.nm(in.Name()+"_ok"), SBool, ok))}}
		} else {
			ex.set(in, v)
		}
		return
	}
	// string index
	i := ex.idx64(ex.val(in.Index))
	ex.addObl("bounds", "", r, and(app("bvsle", bvLit(64, 0), i), app("bvslt", i, x.Len)), in.Pos(),
		"index out of range: "+ex.v.srcLine(in.Pos()), true)
	ex.set(in, c.sliceElem(x, i))
}

func (ex *Exec) slice(in *ssa.Slice, r Term) {
	c := ex.c
	x := ex.val(in.X)
	var base Val
	switch xt := in.X.Type().Underlying().(type) {
	case *types.Pointer:
		// slice of an array in memory: snapshot of its current content
		at := xt.Elem().Underlying().(*types.Array)
		n := int(at.Len())
		if isByte(at.Elem()) && n <= 64 {
			arrv := c.load(ex.cur, x.T, xt.Elem())
			asort := arrSort(bvSort(64), bvSort(8))
			t := fmt.Sprintf("((as const %s) #x00)", asort)
			for i := 0; i < n; i++ {
				t = app("store", t, bvLit(64, uint64(i)), byteOfArr(arrv, n, i).T)
			}
			base = Val{K: KSlice, Arr: []Term{c.define("arrsnap", asort, t)}, Off: bvLit(64, 0), Len: bvLit(64, uint64(n)), Elem: at.Elem()}
			base.ArrBack = &arrBack{Addr: x.T, Typ: xt.Elem()}
		} else {
			sorts := c.leafSorts(at.Elem())
			arrs := make([]Term, len(sorts))
			for k, s := range sorts {
				arrs[k] = c.constArr(s)
			}
			for i := 0; i < n; i++ {
				ev := c.load(ex.cur, c.fieldAddr(x.T, xt.Elem(), i), at.Elem())
				for k, l := range leaves(ev) {
					arrs[k] = app("store", arrs[k], bvLit(64, uint64(i)), l)
				}
			}
			for k, s := range sorts {
				arrs[k] = c.define("arrsnap", arrSort(bvSort(64), s), arrs[k])
			}
			base = Val{K: KSlice, Arr: arrs, Off: bvLit(64, 0), Len: bvLit(64, uint64(n)), Elem: at.Elem()}
		}
	default:
		base = x
	}
	lo := bvLit(64, 0)
	hi := base.Len
	if in.Low != nil {
		lo = ex.idx64(ex.val(in.Low))
	}
	if in.High != nil {
		hi = ex.idx64(ex.val(in.High))
	}
	if in.Low != nil || in.High != nil {
		ex.addObl("bounds", "", r, and(app("bvsle", bvLit(64, 0), lo), app("bvsle", lo, hi), app("bvsle", hi, base.Len)), in.Pos(),
			"slice bounds out of range: "+ex.v.srcLine(in.Pos()), true)
	}
	res := base
	res.Typ = in.Type()
	if lo != bvLit(64, 0) {
		res.Off = app("bvadd", base.Off, lo)
	}
	res.Len = app("bvsub", hi, lo)
	if in.Low == nil && in.High == nil {
		res.Len = base.Len
	} else if in.Low == nil {
		res.Len = hi
	}
	if st, ok := in.Type().Underlying().(*types.Slice); ok {
		res.Elem = st.Elem()
	} else {
		res.Elem = types.Typ[types.Uint8]
	}
	if res.ArrBack != nil && (res.Off != bvLit(64, 0)) {
		res.ArrBack = nil
	}
	nv := c.nameVal(res, ex.nm(in.Name()))
	nv.ArrBack = res.ArrBack
	nv.Typ = in.Type()
	ex.vals[in] = nv
}

type arrBack struct {
	Addr Term
	Typ  types.Type
}

func (ex *Exec) runDefers(r Term) {
	for i := len(ex.defers) - 1; i >= 0; i-- {
		d := ex.defers[i]
		name := calleeName(&d.Call)
		switch {
		case strings.HasSuffix(name, "sync.Mutex).Unlock"), strings.HasSuffix(name, "sync.Mutex).Lock"):
			continue
		case d.Call.Value != nil && d.Call.Value.Name() == "close":
			// closing a channel has no effect on modelled state, but it can
			// be counted (`ghost n counts close`)
			ex.bumpGhosts(name)
			continue
		}
		// other deferred calls are executed here; go/ssa places RunDefers on
		// every return path.
		ex.call(nil, &d.Call, r)
	}
}

func calleeName(cc *ssa.CallCommon) string {
	if cc.IsInvoke() {
		return "invoke " + cc.Value.Type().String() + "." + cc.Method.Name()
	}
	if f := cc.StaticCallee(); f != nil {
		return oldName(f)
	}
	if b, ok := cc.Value.(*ssa.Builtin); ok {
		return "builtin " + b.Name()
	}
	return "dynamic " + cc.Value.Name()
}

// recvJustified: blocking discipline. In a function whose contract has `recv`
// clauses, every channel receive must carry one, and the clause must hold in
// the state in which the receive blocks. Receives are numbered in source order.
func (ex *Exec) recvJustified(in *ssa.UnOp, r Term) {
	if ex != ex.top || ex.fc == nil {
		return
	}
	has := false
	for _, ca := range ex.fc.CallAsserts {
		if ca.Callee == "<-" {
			has = true
		}
	}
	if !has {
		return
	}
	var recvs []*ssa.UnOp
	for _, b := range in.Parent().Blocks {
		for _, i := range b.Instrs {
			if u, ok := i.(*ssa.UnOp); ok && u.Op == token.ARROW {
				recvs = append(recvs, u)
			}
		}
	}
	sort.SliceStable(recvs, func(i, j int) bool { return recvs[i].Pos() < recvs[j].Pos() })
	k := -1
	for i, u := range recvs {
		if u == in {
			k = i
		}
	}
	for ci, ca := range ex.fc.CallAsserts {
		if ca.Callee != "<-" || ca.Ordinal != k {
			continue
		}
		env := ex.baseEnv(ex.cur)
		ex.bindDominating(env, in)
		for n, nv := range ex.named {
			if _, clash := env.vars[n]; !clash {
				env.vars[n] = nv
			}
		}
		t, err := env.Goal(ca.C.E)
		txt := ca.C.Text
		if err != nil {
			if !staleRef(err) {
				unsup("recv %d assert: %v", k, err)
			}
			t = "false"
			txt += "   [cannot be evaluated here: " + err.Error() + "]"
		}
		lbl := ca.C.Label
		if lbl == "" {
			lbl = fmt.Sprintf("c%d", ci)
		}
		ex.addObl("assert", lbl, r, t, in.Pos(), txt, false)
		ex.assertSeen[fmt.Sprintf("%d %s", ca.Ordinal, ca.Callee)] = true
		ex.c.trusted["A-CHAN-PROTOCOL: where its `recv` clause holds, a channel receive in "+ex.fname+" is answered (the sender has sent or will send): "+ca.C.Text] = true
		return
	}
	ex.addObl("assert", fmt.Sprintf("recv%d", k), r, "false", in.Pos(),
		fmt.Sprintf("blocking receive %d has no `recv` clause: nothing shows that its sender will send (the function justifies its other receives)", k), false)
}
