package main

// exec.go — symbolic execution of one go/ssa function over its loop-cut CFG.
// Every SSA value becomes an SMT term; every block gets a reachability
// condition; obligations are (guard ⇒ goal) checked against the assumptions
// accumulated up to that point.

import (
	"fmt"
	"go/ast"
	"go/constant"
	"go/token"
	"go/types"
	"sort"
	"strconv"
	"strings"

	"golang.org/x/tools/go/ssa"
)

type Obligation struct {
	Name    string
	Kind    string // pre, post, inv-init, inv-preserve, frame, bounds, nopanic, div, overflow, assert, lemma, nil, typeassert, decreases
	Func    string
	Mark    int
	Guard   Term
	Goal    Term
	Pos     string
	Text    string
	Safety  bool
	Ctx     *Ctx
	Parts   []Term      // when set: the goal is the conjunction of these, each discharged by its own query
	SubObls []*Obligation // when set: discharged iff every sub-obligation is (each has its own guard and context prefix)
	Inputs  []NamedTerm // terms worth evaluating in a model
	Outputs []NamedTerm
	// results
	Status  string // unsat, sat, unknown, timeout, error
	Solver  string
	Seconds float64
	Model   map[string]string
	Raw     string
	Phase   string
}

type NamedTerm struct {
	Name string
	T    Term
	Sort string
}

type unsupported struct{ msg string }

func unsup(f string, a ...interface{}) { panic(unsupported{fmt.Sprintf(f, a...)}) }

type retInfo struct {
	reach Term
	vals  []Val
	mem   *MemState
}

type Exec struct {
	v      *Verifier
	c      *Ctx
	fn     *ssa.Function
	fc     *FuncContract
	fname  string // display name pkg.Name
	prefix string
	vals   map[ssa.Value]Val
	reach  map[*ssa.BasicBlock]Term
	memIn  map[*ssa.BasicBlock]*MemState
	memOut map[*ssa.BasicBlock]*MemState
	edge   map[[2]int]Term
	cur    *MemState
	curReach Term
	obls   *[]*Obligation
	count  map[string]int
	allocs *[]Term
	known  []Term // refs known to exist before any allocation of this function
	recent []Term // reference values obtained since the last allocation
	recentSeen map[Term]bool
	rets   []retInfo
	defers []*ssa.Defer
	indexPhis map[*ssa.Phi]bool // phis that are the counter of a canonical index loop
	parent     *Exec           // the frame this one was inlined into
	siteTop    ssa.Instruction // the call in the top function through which this inlined frame was entered
	inlineSite ssa.Instruction
	depth  int
	stack  []string
	loops  map[*ssa.BasicBlock]*loopInfo
	entryMem *MemState
	entryEnv *Env
	params []Val
	inputs []NamedTerm
	top    *Exec
	nilcheck bool
	sweep  bool
	decAtHeader map[*ssa.BasicBlock]Val
	headerEnv   map[*ssa.BasicBlock]*Env
	closureVals map[Term]*ssa.MakeClosure
	inlineN int
	named    map[string]Val
	callSeen map[string]bool
	assertSeen map[string]bool
	autoRange  map[*ssa.BasicBlock]*rangeInv
	ghostKeys  map[string]string
	pendingMapHavoc []mapHavoc
	deferred []func() // step clauses, evaluated after the whole body has been executed
	private    map[*ssa.Alloc]bool
	pendingAssume []*CallAssert
	paramNames map[string]bool
	debugBound map[*Env]map[string]bool
}

// addLoopPart: the obligations of one loop clause at the different back edges
// are parts of ONE obligation named after the clause (stable when the number
// of back edges changes).
func (ex *Exec) addLoopPart(kind string, idx int, cl *Clause, guard, goal Term, pos token.Pos) {
	name := fmt.Sprintf("%s/%s#%d", ex.top.fname, kind, idx)
	if cl.Label != "" {
		name = fmt.Sprintf("%s/%s@%s", ex.top.fname, kind, cl.Label)
	}
	if ex != ex.top {
		name += "[in " + ex.fname + "]"
	}
	var parent *Obligation
	for _, o := range *ex.obls {
		if o.Name == name {
			parent = o
		}
	}
	if parent == nil {
		parent = &Obligation{Name: name, Kind: kind, Func: ex.top.fname, Guard: "true", Goal: "true", Pos: ex.v.posStr(pos), Text: cl.Text, Ctx: ex.c, Inputs: ex.top.inputs}
		*ex.obls = append(*ex.obls, parent)
	}
	sub := &Obligation{Name: fmt.Sprintf("%s.edge%d", name, len(parent.SubObls)), Kind: kind, Func: ex.top.fname, Mark: ex.c.mark(), Guard: guard, Goal: goal,
		Pos: parent.Pos, Text: cl.Text, Ctx: ex.c, Inputs: ex.top.inputs}
	parent.SubObls = append(parent.SubObls, sub)
	parent.Mark = sub.Mark
}

// privateAllocs: the allocations of fn whose address never leaves the
// function except into closures that are only started with `go`/`defer` or
// called directly. A callee cannot reach such a cell, so its content survives
// a call whose contract says `modifies everything`.
func privateAllocs(fn *ssa.Function) map[*ssa.Alloc]bool {
	out := map[*ssa.Alloc]bool{}
	var okUse func(v ssa.Value, depth int) bool
	okUse = func(v ssa.Value, depth int) bool {
		refs := v.Referrers()
		if refs == nil || depth > 4 {
			return false
		}
		for _, r := range *refs {
			switch r := r.(type) {
			case *ssa.DebugRef:
			case *ssa.UnOp:
				if r.Op != token.MUL {
					return false
				}
			case *ssa.Store:
				if r.Val == v {
					return false
				}
			case *ssa.FieldAddr:
				if !okUse(r, depth+1) {
					return false
				}
			case *ssa.IndexAddr:
				if !okUse(r, depth+1) {
					return false
				}
			case *ssa.MakeClosure:
				// Either the closure does not leak (only go/defer/direct call),
				// or its body only ever reads the captured variable.
				leaks := false
				crefs := r.Referrers()
				if crefs == nil {
					return false
				}
				for _, cr := range *crefs {
					switch cr := cr.(type) {
					case *ssa.Go:
						if cr.Call.Value != r {
							leaks = true
						}
					case *ssa.Defer:
						if cr.Call.Value != r {
							leaks = true
						}
					case *ssa.Call:
						if cr.Call.Value != r {
							leaks = true
						}
					case *ssa.DebugRef:
					default:
						leaks = true
					}
				}
				if leaks {
					cf, ok := r.Fn.(*ssa.Function)
					if !ok {
						return false
					}
					for bi, bnd := range r.Bindings {
						if bnd != v {
							continue
						}
						if bi >= len(cf.FreeVars) || !readOnlyUse(cf.FreeVars[bi], 0) {
							return false
						}
					}
				}
			default:
				return false
			}
		}
		return true
	}
	for _, b := range fn.Blocks {
		for _, in := range b.Instrs {
			if al, ok := in.(*ssa.Alloc); ok && okUse(al, 0) {
				out[al] = true
			}
		}
	}
	return out
}

// readOnlyUse: the pointer v (a captured variable inside a closure) is only
// dereferenced for reading (possibly in nested closures).
func readOnlyUse(v ssa.Value, depth int) bool {
	refs := v.Referrers()
	if refs == nil || depth > 3 {
		return false
	}
	for _, r := range *refs {
		switch r := r.(type) {
		case *ssa.DebugRef:
		case *ssa.UnOp:
			if r.Op != token.MUL {
				return false
			}
		case *ssa.MakeClosure:
			cf, ok := r.Fn.(*ssa.Function)
			if !ok {
				return false
			}
			for bi, bnd := range r.Bindings {
				if bnd == v && (bi >= len(cf.FreeVars) || !readOnlyUse(cf.FreeVars[bi], depth+1)) {
					return false
				}
			}
		default:
			return false
		}
	}
	return true
}

// havocAllKeepPrivate forgets memory except the cells of private allocations.
func (ex *Exec) havocAllKeepPrivate() {
	c := ex.c
	if ex.private == nil {
		ex.private = privateAllocs(ex.fn)
	}
	old := ex.cur.clone()
	c.havocAll(ex.cur)
	var pallocs []*ssa.Alloc
	for al := range ex.private {
		pallocs = append(pallocs, al)
	}
	sort.Slice(pallocs, func(i, j int) bool {
		if pallocs[i].Block().Index != pallocs[j].Block().Index {
			return pallocs[i].Block().Index < pallocs[j].Block().Index
		}
		return pallocs[i].Name() < pallocs[j].Name()
	})
	for _, al := range pallocs {
		av, ok := ex.vals[al]
		if !ok || av.K != KRef || av.T == "" {
			continue
		}
		et := al.Type().Underlying().(*types.Pointer).Elem()
		func() {
			defer func() { recover() }()
			c.store(ex.cur, av.T, et, c.load(old, av.T, et))
		}()
	}
}

// ghostNames: memory keys of the ghost counters bumped inside... (all of them:
// conservative) — used when a loop havocs everything.
func (ex *Exec) ghostNames() []string {
	var out []string
	if ex.top.fc != nil {
		for _, g := range ex.top.fc.Ghosts {
			out = append(out, ghostKey(g.Name))
		}
	}
	return out
}

func ghostKey(name string) string {
	k := "Mghost " + name
	if _, ok := memSorts[k]; !ok {
		memSorts[k] = "(Array Int (_ BitVec 64))"
	}
	return k
}

// bumpGhosts increments the ghost counters that count this callee.
func (ex *Exec) bumpGhosts(callee string) {
	pf := ex.patternFrame()
	if pf == nil || pf.fc == nil {
		return
	}
	for _, g := range pf.fc.Ghosts {
		if strings.Contains(callee, g.Callee) {
			k := ghostKey(g.Name)
			old := ex.c.memRaw(ex.cur, k)
			ex.cur.m[k] = ex.c.define("ghost", "(Array Int (_ BitVec 64))", app("store", old, "0", app("bvadd", app("select", old, "0"), bvLit(64, 1))))
		}
	}
}

type rangeInv struct {
	phi   *ssa.Phi
	limit Term
	index bool // `for i := 0; i < L; i++` rather than `for i := range s`
}

func (ri *rangeInv) holds(idx Term) Term {
	if ri.index {
		return and(app("bvsle", bvLit(64, 0), idx), app("bvsle", idx, ri.limit))
	}
	return and(app("bvsle", app("bvneg", bvLit(64, 1)), idx), app("bvslt", idx, ri.limit))
}

// indexLoop recognises the explicit form of the same loop,
//   header: i = phi [0, i+1]; if i < L     (L = len(x) of a value defined outside the loop, or defined outside)
// so that a loop rewritten from `range` to an index keeps its automatic
// invariant (0 <= i <= L) and the name `rangeindex` (= i - 1) in clauses.
func (ex *Exec) indexLoop(h *ssa.BasicBlock) *rangeInv {
	iff, ok := h.Instrs[len(h.Instrs)-1].(*ssa.If)
	if !ok {
		return nil
	}
	cmp, ok := iff.Cond.(*ssa.BinOp)
	if !ok || cmp.Op != token.LSS {
		return nil
	}
	phi, ok := cmp.X.(*ssa.Phi)
	if !ok || phi.Block() != h || len(phi.Edges) != 2 {
		return nil
	}
	if b, ok := phi.Type().Underlying().(*types.Basic); !ok || b.Kind() != types.Int {
		return nil
	}
	li := ex.loops[h]
	zero, inc := 0, 0
	for i, e := range phi.Edges {
		fromLoop := li.body[h.Preds[i]]
		if k, ok := e.(*ssa.Const); ok && !fromLoop && k.Value != nil && k.Int64() == 0 {
			zero++
		}
		if b, ok := e.(*ssa.BinOp); ok && fromLoop && b.Op == token.ADD && b.X == phi {
			if k, ok := b.Y.(*ssa.Const); ok && k.Value != nil && k.Int64() == 1 {
				inc++
			}
		}
	}
	if zero != 1 || inc != 1 {
		return nil
	}
	outside := func(x ssa.Value) bool {
		in, ok := x.(ssa.Instruction)
		return !ok || in.Block() == nil || !li.body[in.Block()]
	}
	var lim Term
	switch y := cmp.Y.(type) {
	case *ssa.Call:
		b, ok := y.Call.Value.(*ssa.Builtin)
		if !ok || b.Name() != "len" || len(y.Call.Args) != 1 {
			return nil
		}
		a, ok := ex.vals[y.Call.Args[0]]
		if !ok {
			// len(p.f) / len(*v) re-read in the header: the value at loop
			// entry (if the loop changes it the range-preserve obligation
			// fails; nothing is assumed that is not proved)
			a, ok = ex.entryLoad(y.Call.Args[0], outside)
		}
		if !ok || a.Len == "" {
			return nil
		}
		lim = a.Len
	default:
		if !outside(cmp.Y) {
			return nil
		}
		lv, ok := ex.vals[cmp.Y]
		if !ok {
			if _, isC := cmp.Y.(*ssa.Const); !isC {
				return nil
			}
			lv = ex.val(cmp.Y)
		}
		lim = lv.T
		// the limit must be non-negative for 0 <= i <= L to hold initially:
		// that is the range-init obligation
	}
	if ex.indexPhis == nil {
		ex.indexPhis = map[*ssa.Phi]bool{}
	}
	ex.indexPhis[phi] = true
	return &rangeInv{phi: phi, limit: lim, index: true}
}

// rangeInvariant recognises the go/ssa shape of a range-over-slice loop:
//   header: i = phi [-1, i+1] #rangeindex; n = i + 1; if n < L (L defined outside the loop)
func (ex *Exec) rangeInvariant(h *ssa.BasicBlock) *rangeInv {
	var phi *ssa.Phi
	for _, in := range h.Instrs {
		p, ok := in.(*ssa.Phi)
		if !ok {
			break
		}
		if p.Comment == "rangeindex" {
			phi = p
		}
	}
	if phi == nil {
		return ex.indexLoop(h)
	}
	iff, ok := h.Instrs[len(h.Instrs)-1].(*ssa.If)
	if !ok {
		return nil
	}
	cmp, ok := iff.Cond.(*ssa.BinOp)
	if !ok || cmp.Op != token.LSS {
		return nil
	}
	inc, ok := cmp.X.(*ssa.BinOp)
	if !ok || inc.Op != token.ADD || inc.X != phi {
		return nil
	}
	if k, ok := inc.Y.(*ssa.Const); !ok || k.Int64() != 1 {
		return nil
	}
	li := ex.loops[h]
	if in, ok := cmp.Y.(ssa.Instruction); ok && in.Block() != nil && li.body[in.Block()] {
		return nil
	}
	lim, ok := ex.vals[cmp.Y]
	if !ok {
		if _, isC := cmp.Y.(*ssa.Const); !isC {
			return nil
		}
		lim = ex.val(cmp.Y)
	}
	return &rangeInv{phi: phi, limit: lim.T}
}

var _ = token.ADD

type unusedRange struct{}


// entryLoad evaluates `*v` or `*(&p.f)` for v / p defined outside the loop,
// in the memory state in which the loop is entered.
func (ex *Exec) entryLoad(x ssa.Value, outside func(ssa.Value) bool) (Val, bool) {
	u, ok := x.(*ssa.UnOp)
	if !ok || u.Op != token.MUL {
		return Val{}, false
	}
	et := u.X.Type().Underlying().(*types.Pointer).Elem()
	switch a := u.X.(type) {
	case *ssa.FieldAddr:
		if !outside(a.X) {
			return Val{}, false
		}
		base, ok := ex.vals[a.X]
		if !ok || base.K != KRef || base.EP != nil {
			return Val{}, false
		}
		pt := a.X.Type().Underlying().(*types.Pointer)
		v := ex.c.load(ex.cur, ex.c.fieldAddr(base.T, pt.Elem(), a.Field), et)
		v.Typ = et
		return v, true
	default:
		if !outside(u.X) {
			return Val{}, false
		}
		base, ok := ex.vals[u.X]
		if !ok || base.K != KRef || base.EP != nil {
			return Val{}, false
		}
		v := ex.c.load(ex.cur, base.T, et)
		v.Typ = et
		return v, true
	}
}

type loopInfo struct {
	header *ssa.BasicBlock
	body   map[*ssa.BasicBlock]bool
	index  int
	spec   *LoopSpec
	pos    token.Pos
}

func (ex *Exec) nm(s string) string { return ex.prefix + s }

func (ex *Exec) addObl(kind string, label string, guard, goal Term, pos token.Pos, text string, safety bool) *Obligation {
	if goal == "true" || guard == "false" {
		// trivially discharged syntactically; still counted (as unsat by construction)
	}
	key := kind
	n := ex.top.count[key]
	ex.top.count[key] = n + 1
	name := fmt.Sprintf("%s/%s#%d", ex.top.fname, kind, n)
	if label != "" {
		name = fmt.Sprintf("%s/%s@%s", ex.top.fname, kind, label)
	}
	if ex != ex.top {
		// obligations inside an inlined callee are attributed to the caller
		name = fmt.Sprintf("%s/%s#%d[in %s]", ex.top.fname, kind, n, ex.fname)
	}
	o := &Obligation{Name: name, Kind: kind, Func: ex.top.fname, Mark: ex.c.mark(), Guard: guard, Goal: goal,
		Pos: ex.v.posStr(pos), Text: text, Safety: safety, Ctx: ex.c, Inputs: ex.top.inputs}
	*ex.obls = append(*ex.obls, o)
	if safety || kind == "overflow" || kind == "fconv" {
		// execution continues past this point only if the check passed
		// (overflow / conversion obligations: later obligations are stated
		// for the case that this one holds; it is reported on its own)
		ex.c.assume(imp(guard, goal))
	}
	return o
}

// ---------------------------------------------------------------- CFG helpers

func (ex *Exec) findLoops() {
	ex.loops = map[*ssa.BasicBlock]*loopInfo{}
	fn := ex.fn
	for _, b := range fn.Blocks {
		for _, s := range b.Succs {
			if s.Dominates(b) {
				li := ex.loops[s]
				if li == nil {
					li = &loopInfo{header: s, body: map[*ssa.BasicBlock]bool{s: true}}
					ex.loops[s] = li
				}
				// natural loop of back edge b->s
				var stack []*ssa.BasicBlock
				if !li.body[b] {
					li.body[b] = true
					stack = append(stack, b)
				}
				for len(stack) > 0 {
					x := stack[len(stack)-1]
					stack = stack[:len(stack)-1]
					for _, p := range x.Preds {
						if !li.body[p] {
							li.body[p] = true
							stack = append(stack, p)
						}
					}
				}
			}
		}
	}
	// order loops by source position of the header's first positioned instruction
	var lis []*loopInfo
	for _, li := range ex.loops {
		li.pos = loopPos(li)
		lis = append(lis, li)
	}
	sort.Slice(lis, func(i, j int) bool {
		if lis[i].pos != lis[j].pos {
			return lis[i].pos < lis[j].pos
		}
		return lis[i].header.Index < lis[j].header.Index
	})
	for i, li := range lis {
		li.index = i
		if ex.fc != nil {
			li.spec = ex.fc.Loops[i]
		}
	}
}

func loopPos(li *loopInfo) token.Pos {
	best := token.NoPos
	for b := range li.body {
		for _, in := range b.Instrs {
			if p := in.Pos(); p != token.NoPos && (best == token.NoPos || p < best) {
				best = p
			}
		}
	}
	return best
}

func isBackEdge(from, to *ssa.BasicBlock) bool { return to.Dominates(from) }

func (ex *Exec) topoOrder() []*ssa.BasicBlock {
	fn := ex.fn
	indeg := map[*ssa.BasicBlock]int{}
	for _, b := range fn.Blocks {
		for _, p := range b.Preds {
			if !isBackEdge(p, b) {
				indeg[b]++
			}
		}
	}
	var order []*ssa.BasicBlock
	var ready []*ssa.BasicBlock
	for _, b := range fn.Blocks {
		if indeg[b] == 0 && (b.Index == 0 || len(b.Preds) > 0 || b == fn.Recover) {
			if b.Index == 0 {
				ready = append(ready, b)
			}
		}
	}
	seen := map[*ssa.BasicBlock]bool{}
	for len(ready) > 0 {
		// pick the lowest index for determinism
		sort.Slice(ready, func(i, j int) bool { return ready[i].Index < ready[j].Index })
		b := ready[0]
		ready = ready[1:]
		if seen[b] {
			continue
		}
		seen[b] = true
		order = append(order, b)
		for _, s := range b.Succs {
			if isBackEdge(b, s) {
				continue
			}
			indeg[s]--
			if indeg[s] == 0 {
				ready = append(ready, s)
			}
		}
	}
	return order
}

// ---------------------------------------------------------------- values

func (ex *Exec) val(v ssa.Value) Val {
	if x, ok := ex.vals[v]; ok {
		return x
	}
	switch v := v.(type) {
	case *ssa.Const:
		return ex.constVal(v)
	case *ssa.Global:
		return refVal(ex.v.globalAddr(ex.c, v), v.Type())
	case *ssa.Function:
		return refVal(ex.v.funcRef(ex.c, v), v.Type())
	case *ssa.Builtin:
		return refVal("0", v.Type())
	case *ssa.FreeVar:
		unsup("free variable %s without binding", v.Name())
	}
	unsup("value %s (%T) used before definition", v.Name(), v)
	return Val{}
}

func (ex *Exec) constVal(k *ssa.Const) Val {
	t := k.Type()
	c := ex.c
	if k.Value == nil {
		return c.zeroVal(t)
	}
	switch u := t.Underlying().(type) {
	case *types.Basic:
		switch {
		case u.Info()&types.IsBoolean != 0:
			return Val{K: KBool, T: fmt.Sprint(constant.BoolVal(k.Value)), Typ: t}
		case u.Info()&types.IsInteger != 0:
			w, s, _ := basicBV(u)
			iv := constant.ToInt(k.Value)
			str := iv.ExactString()
			if strings.HasPrefix(str, "-") {
				// two's complement
				bi, _ := constant.Uint64Val(constant.BinaryOp(constant.MakeInt64(0), token.SUB, iv))
				var m uint64
				if w == 64 {
					m = ^uint64(0)
				} else {
					m = (uint64(1) << uint(w)) - 1
				}
				str = fmt.Sprint((^bi + 1) & m)
			}
			if u64, err := strconv.ParseUint(str, 10, 64); err == nil && w <= 64 {
				return Val{K: KBV, T: bvLit(w, u64), W: w, Signed: s, Typ: t}
			}
			return Val{K: KBV, T: bvLitBig(w, str), W: w, Signed: s, Typ: t}
		case u.Info()&types.IsFloat != 0:
			f, _ := constant.Float64Val(k.Value)
			c.hasFP = true
			return Val{K: KF64, T: fpOfFloat(f), Typ: t}
		case u.Info()&types.IsString != 0:
			v := c.strConst(constant.StringVal(k.Value))
			v.Typ = t
			return v
		}
	}
	unsup("constant of type %s", t)
	return Val{}
}

func (ex *Exec) set(v ssa.Value, x Val) {
	if x.Typ == nil {
		x.Typ = v.Type()
	}
	x = ex.c.nameVal(x, ex.nm(v.Name()))
	if x.Typ == nil || true {
		x.Typ = v.Type()
	}
	ex.vals[v] = x
}

// ---------------------------------------------------------------- run

// run executes the function body from the given entry state and returns the
// merged exit state.
func (ex *Exec) run(entryReach Term, mem *MemState) (Term, []Val, *MemState) {
	fn := ex.fn
	if fn.Blocks == nil {
		unsup("function %s has no body", fn)
	}
	ex.findLoops()
	order := ex.topoOrder()
	ex.reach = map[*ssa.BasicBlock]Term{}
	ex.memOut = map[*ssa.BasicBlock]*MemState{}
	ex.edge = map[[2]int]Term{}
	for _, b := range order {
		ex.enterBlock(b, entryReach, mem)
		for _, in := range b.Instrs {
			ex.instr(b, in)
		}
		ex.memOut[b] = ex.cur
	}
	// merge returns
	if len(ex.rets) == 0 {
		return "false", nil, mem
	}
	var conds []Term
	var mems []*MemState
	for _, r := range ex.rets {
		conds = append(conds, r.reach)
		mems = append(mems, r.mem)
	}
	outReach := ex.c.define(ex.nm("retreach"), SBool, or(conds...))
	outMem := ex.c.mergeMem(conds, mems)
	var outVals []Val
	nres := fn.Signature.Results().Len()
	for i := 0; i < nres; i++ {
		v := ex.rets[len(ex.rets)-1].vals[i]
		for j := len(ex.rets) - 2; j >= 0; j-- {
			v = ex.c.iteVal(ex.rets[j].reach, ex.rets[j].vals[i], v)
		}
		v.Typ = fn.Signature.Results().At(i).Type()
		outVals = append(outVals, ex.c.nameVal(v, ex.nm(fmt.Sprintf("result%d", i))))
	}
	return outReach, outVals, outMem
}

func (ex *Exec) enterBlock(b *ssa.BasicBlock, entryReach Term, entryMem *MemState) {
	c := ex.c
	if b.Index == 0 {
		ex.reach[b] = entryReach
		ex.cur = entryMem.clone()
		ex.curReach = entryReach
		return
	}
	li := ex.loops[b]
	var conds []Term
	var mems []*MemState
	var preds []*ssa.BasicBlock
	for _, p := range b.Preds {
		if isBackEdge(p, b) {
			continue
		}
		if _, ok := ex.reach[p]; !ok {
			continue // unreachable predecessor (not in topo order)
		}
		conds = append(conds, ex.edgeCond(p, b))
		mems = append(mems, ex.memOut[p])
		preds = append(preds, p)
	}
	if len(preds) == 0 {
		ex.reach[b] = "false"
		ex.cur = entryMem.clone()
		ex.curReach = "false"
		return
	}
	r := c.define(ex.nm(fmt.Sprintf("reach_b%d", b.Index)), SBool, or(conds...))
	ex.reach[b] = r
	ex.curReach = r
	ex.cur = c.mergeMem(conds, mems)
	if li != nil {
		ex.enterLoop(b, li, preds, conds, mems)
	}
}

func (ex *Exec) edgeCond(from, to *ssa.BasicBlock) Term {
	k := [2]int{from.Index, to.Index}
	if t, ok := ex.edge[k]; ok {
		return t
	}
	r := ex.reach[from]
	var t Term
	switch last := from.Instrs[len(from.Instrs)-1].(type) {
	case *ssa.If:
		cv := ex.val(last.Cond).T
		if from.Succs[0] == to && from.Succs[1] == to {
			t = r
		} else if from.Succs[0] == to {
			t = and(r, cv)
		} else {
			t = and(r, not(cv))
		}
	default:
		t = r
	}
	t = ex.c.define(ex.nm(fmt.Sprintf("edge_%d_%d", from.Index, to.Index)), SBool, t)
	ex.edge[k] = t
	return t
}

// phiEdgeVal returns the value a phi takes along the edge from pred.
func (ex *Exec) phiEdgeVal(phi *ssa.Phi, b, pred *ssa.BasicBlock) Val {
	for i, p := range b.Preds {
		if p == pred {
			return ex.val(phi.Edges[i])
		}
	}
	panic("phiEdgeVal: predecessor not found")
}

// ---------------------------------------------------------------- loops

func (ex *Exec) enterLoop(h *ssa.BasicBlock, li *loopInfo, preds []*ssa.BasicBlock, conds []Term, mems []*MemState) {
	c := ex.c
	if li.spec == nil && ex.fc != nil && ex.fc.Options["loops"] == "required" {
		unsup("loop %d has no invariant", li.index)
	}
	auto := ex.rangeInvariant(h)
	// 1. invariant on entry: phi values are the values along the entry edges
	env := ex.loopEnv(h, func(phi *ssa.Phi) Val {
		v := ex.phiEdgeVal(phi, h, preds[len(preds)-1])
		for i := len(preds) - 2; i >= 0; i-- {
			v = c.iteVal(conds[i], ex.phiEdgeVal(phi, h, preds[i]), v)
		}
		return v
	}, ex.cur)
	if li.spec != nil {
		for k, inv := range li.spec.Invariants {
			t, err := env.Goal(inv.E)
			if err != nil {
				if !staleRef(err) {
					unsup("loop %d invariant %d: %v", li.index, k, err)
				}
				// the invariant names a local that is not carried by this
				// loop (any more): it cannot be established
				t = "false"
				inv = &Clause{Kind: inv.Kind, Label: inv.Label, Text: inv.Text + "   [cannot be evaluated here: " + err.Error() + "]", E: inv.E, File: inv.File, Line: inv.Line}
			}
			lbl := inv.Label
			ex.addObl(fmt.Sprintf("loop%d/inv-init", li.index), lbl, ex.reach[h], t, li.pos, inv.Text, false)
		}
	}
	// automatic invariant of `for i := range s` loops: -1 <= rangeindex < len
	if auto != nil {
		v := ex.phiEdgeVal(auto.phi, h, preds[len(preds)-1])
		for i := len(preds) - 2; i >= 0; i-- {
			v = c.iteVal(conds[i], ex.phiEdgeVal(auto.phi, h, preds[i]), v)
		}
		ex.addObl(fmt.Sprintf("loop%d/range-init", li.index), "", ex.reach[h], auto.holds(v.T), li.pos, "-1 <= rangeindex < len (automatic)", false)
	}
	// 2. havoc: phis and every memory key written inside the loop
	for _, in := range h.Instrs {
		phi, ok := in.(*ssa.Phi)
		if !ok {
			break
		}
		fv := c.freshVal(phi.Type(), ex.nm(phi.Name()+"_h"))
		fv.Typ = phi.Type()
		c.assume(ex.v.wfAssume(c, fv)) // type invariant of slice/string values
		ex.vals[phi] = fv
	}
	ex.havocLoopMemory(li)
	if auto != nil {
		c.assume(imp(ex.reach[h], auto.holds(ex.vals[auto.phi].T)))
		ex.autoRange[h] = auto
	}
	// 3. assume the invariant for an arbitrary iteration
	env2 := ex.loopEnv(h, func(phi *ssa.Phi) Val { return ex.vals[phi] }, ex.cur)
	if li.spec != nil {
		for _, inv := range li.spec.Invariants {
			t, err := env2.Bool(inv.E)
			if err != nil {
				if !staleRef(err) {
					unsup("loop %d invariant: %v", li.index, err)
				}
				continue // not assumable: nothing is assumed
			}
			c.assume(imp(ex.reach[h], t))
		}
	}
	ex.headerEnv[h] = env2
	// remember header state for the decreases check
	if li.spec != nil && li.spec.Decreases != nil {
		dv, err := env2.Value(li.spec.Decreases.E)
		if err != nil {
			unsup("loop %d decreases: %v", li.index, err)
		}
		ex.decAtHeader[h] = dv
	}
}

func (ex *Exec) loopEnv(h *ssa.BasicBlock, phiVal func(*ssa.Phi) Val, mem *MemState) *Env {
	env := ex.baseEnv(mem)
	// named locals: phis are addressable by the source-level variable name
	// when go/ssa kept it in a comment, and always by their SSA name.
	for _, in := range h.Instrs {
		phi, ok := in.(*ssa.Phi)
		if !ok {
			break
		}
		v := phiVal(phi)
		v.Typ = phi.Type()
		env.vars[phi.Name()] = v
		if phi.Comment != "" {
			if _, clash := env.vars[phi.Comment]; !clash {
				env.vars[phi.Comment] = v
			}
		}
		if ex.indexPhis[phi] {
			if _, clash := env.vars["rangeindex"]; !clash {
				ri := v
				ri.T = app("bvsub", v.T, bvLit(64, 1))
				env.vars["rangeindex"] = ri
			}
		}
	}
	// results of calls named by the contract (those met so far)
	for k, nv := range ex.top.named {
		if _, clash := env.vars[k]; !clash {
			env.vars[k] = nv
		}
	}
	// values defined before the loop that dominate the header (nearest
	// dominating definition first: deterministic and the one in scope)
	{
		type cand struct {
			val   ssa.Value
			x     Val
			depth int
			pos   int
		}
		var cands []cand
		for val, x := range ex.vals {
			if in, ok := val.(ssa.Instruction); ok && in.Block() != nil && in.Block() != h && in.Block().Dominates(h) {
				pos := 0
				for i, bi := range in.Block().Instrs {
					if bi == in {
						pos = i
					}
				}
				cands = append(cands, cand{val, x, domDepth(in.Block()), pos})
			}
		}
		sort.Slice(cands, func(i, j int) bool {
			if cands[i].depth != cands[j].depth {
				return cands[i].depth > cands[j].depth
			}
			if cands[i].pos != cands[j].pos {
				return cands[i].pos > cands[j].pos
			}
			return cands[i].val.Name() < cands[j].val.Name()
		})
		for _, cd := range cands {
			val, x := cd.val, cd.x
			if _, clash := env.vars[val.Name()]; !clash {
				env.vars[val.Name()] = x
			}
			switch v := val.(type) {
			case *ssa.Alloc:
				if v.Comment != "" {
					if _, clash := env.vars[v.Comment]; !clash {
						env.vars[v.Comment] = x
					}
				}
			case *ssa.Phi:
				if v.Comment != "" {
					if _, clash := env.vars[v.Comment]; !clash {
						env.vars[v.Comment] = x
					}
				}
			}
		}
	}
	return env
}

// bindDominating adds the named locals (allocs and phis with a source name)
// and SSA names that dominate instruction `at`.
func (ex *Exec) bindDominating(env *Env, at ssa.Instruction) {
	if at == nil || at.Block() == nil {
		return
	}
	blk := at.Block()
	// candidates in a deterministic order: the nearest dominating definition
	// first (deepest block in the dominator tree, then the later instruction)
	type cand struct {
		val   ssa.Value
		x     Val
		depth int
		pos   int
	}
	var cands []cand
	for val, x := range ex.vals {
		in, ok := val.(ssa.Instruction)
		if !ok || in.Block() == nil || in.Parent() != ex.fn {
			continue
		}
		if !(in.Block() == blk || in.Block().Dominates(blk)) {
			continue
		}
		pos := 0
		for i, bi := range in.Block().Instrs {
			if bi == in {
				pos = i
			}
		}
		cands = append(cands, cand{val, x, domDepth(in.Block()), pos})
	}
	sort.Slice(cands, func(i, j int) bool {
		if cands[i].depth != cands[j].depth {
			return cands[i].depth > cands[j].depth
		}
		if cands[i].pos != cands[j].pos {
			return cands[i].pos > cands[j].pos
		}
		return cands[i].val.Name() < cands[j].val.Name()
	})
	for _, cd := range cands {
		val, x := cd.val, cd.x
		name := ""
		switch v := val.(type) {
		case *ssa.Alloc:
			name = v.Comment
		case *ssa.Phi:
			name = v.Comment
		}
		if name != "" && name != "complit" && name != "varargs" {
			if _, clash := env.vars[name]; !clash {
				env.vars[name] = x
			}
		}
		if _, clash := env.vars[val.Name()]; !clash {
			env.vars[val.Name()] = x
		}
		if ph, ok := val.(*ssa.Phi); ok && ex.indexPhis[ph] {
			if _, clash := env.vars["rangeindex"]; !clash {
				ri := x
				ri.T = app("bvsub", x.T, bvLit(64, 1))
				env.vars["rangeindex"] = ri
			}
		}
	}
	ex.bindDebugNames(env, blk)
}

func domDepth(b *ssa.BasicBlock) int {
	d := 0
	for x := b.Idom(); x != nil; x = x.Idom() {
		d++
	}
	return d
}

// bindDebugNames binds source-level local variable names (go/ssa DebugRef,
// built with GlobalDebug) to the value they hold: the last definition, in
// block order, among the blocks that dominate blk (all blocks when blk is nil).
func (ex *Exec) bindDebugNames(env *Env, blk *ssa.BasicBlock) {
	for _, b := range ex.fn.Blocks {
		if blk != nil && !(b == blk || b.Dominates(blk)) {
			continue
		}
		for _, in := range b.Instrs {
			d, ok := in.(*ssa.DebugRef)
			if !ok || d.IsAddr {
				continue
			}
			id, ok := d.Expr.(*ast.Ident)
			if !ok || id.Name == "_" {
				continue
			}
			x, ok := ex.vals[d.X]
			if !ok {
				if _, isC := d.X.(*ssa.Const); isC {
					x = ex.val(d.X)
				} else {
					continue
				}
			}
			if _, isParam := ex.paramNames[id.Name]; isParam {
				continue
			}
			if prev, bound := env.vars[id.Name]; bound && !ex.debugBound[env][id.Name] {
				_ = prev
				continue // a contract-level name (param, alloc, phi) wins
			}
			if ex.debugBound[env] == nil {
				ex.debugBound[env] = map[string]bool{}
			}
			ex.debugBound[env][id.Name] = true
			env.vars[id.Name] = x
		}
	}
}

func (ex *Exec) baseEnv(mem *MemState) *Env {
	env := &Env{c: ex.c, v: ex.v, vars: map[string]Val{}, mem: mem, pkg: ex.fn.Pkg.Pkg, ghosts: ex.top.ghostKeys}
	if ex.entryEnv != nil {
		env.old = ex.entryEnv
		for k, v := range ex.entryEnv.vars {
			env.vars[k] = v
		}
	}
	return env
}

// havocLoopMemory forgets the memory written in the loop body. Stores whose
// address is computed outside the loop are havocked cell-wise; anything else
// havocs the whole array of that type.
func (ex *Exec) havocLoopMemory(li *loopInfo) {
	c := ex.c
	type cellk struct {
		t    types.Type
		addr Term
	}
	var cellsToHavoc []cell
	wholeKeys := map[string]bool{}
	regionHavoc := map[string][]int{}
	all := false
	inLoop := func(v ssa.Value) bool {
		in, ok := v.(ssa.Instruction)
		return ok && in.Block() != nil && li.body[in.Block()]
	}
	markType := func(t types.Type) {
		for _, cl := range c.cells("0", t) {
			for i, s := range c.leafSorts(cl.t) {
				c.memGet(ex.cur, cl.t, i, s)
				wholeKeys[c.memName(cl.t, i)] = true
			}
		}
	}
	var bodyBlocks []*ssa.BasicBlock
	for b := range li.body {
		bodyBlocks = append(bodyBlocks, b)
	}
	sort.Slice(bodyBlocks, func(i, j int) bool { return bodyBlocks[i].Index < bodyBlocks[j].Index })
	for _, b := range bodyBlocks {
		for _, in := range b.Instrs {
			switch in := in.(type) {
			case *ssa.Store:
				et := in.Addr.Type().Underlying().(*types.Pointer).Elem()
				if sv := sliceOrigin(in.Addr); sv != nil {
					// element store: the slice variable's cell changes
					if ld, ok := sv.(*ssa.UnOp); ok && ld.Op == token.MUL {
						if a, ok := ex.staticAddr(ld.X, inLoop); ok {
							cellsToHavoc = append(cellsToHavoc, c.cells(a, sv.Type())...)
							continue
						}
					}
					if !inLoop(sv) {
						if cur, ok := ex.vals[sv]; ok && cur.K == KSlice {
							h := cur
							h.Arr = nil
							for _, so := range c.leafSorts(cur.Elem) {
								h.Arr = append(h.Arr, c.declConst(c.fresh("elemhavoc"), arrSort(bvSort(64), so)))
							}
							ex.vals[sv] = h
							continue
						}
					}
					markType(sv.Type())
					continue
				}
				if a, ok := ex.staticAddr(in.Addr, inLoop); ok {
					cellsToHavoc = append(cellsToHavoc, c.cells(a, et)...)
					continue
				}
				if al := rootAlloc(in.Addr); al != nil && inLoop(al) {
					continue // cell of an object allocated inside the iteration
				}
				markType(et)
			case *ssa.MapUpdate:
				mt := in.Map.Type().Underlying().(*types.Map)
				if !inLoop(in.Map) {
					// a map held in a loop-invariant value: only its own entry changes
					if mv, ok := ex.vals[in.Map]; ok && mv.K == KRef && mv.T != "" && mv.EP == nil {
						ex.touchMap(mt)
						ex.pendingMapHavoc = append(ex.pendingMapHavoc, mapHavoc{mt, mv.T})
						continue
					}
				}
				for k := range memSorts {
					if strings.HasPrefix(k, "Mmap "+typeKey(mt)+" ") {
						wholeKeys[k] = true
					}
				}
				ex.touchMap(mt)
				for k := range memSorts {
					if strings.HasPrefix(k, "Mmap "+typeKey(mt)+" ") {
						wholeKeys[k] = true
					}
				}
			case *ssa.Call:
				if ex == ex.top && ex.fc != nil {
					for _, g := range ex.fc.Ghosts {
						if strings.Contains(calleeName(in.Common()), g.Callee) {
							wholeKeys[ghostKey(g.Name)] = true
						}
					}
				}
				if cs, ok := ex.loopCallCells(in.Common(), inLoop); ok {
					cellsToHavoc = append(cellsToHavoc, cs...)
					continue
				}
				if regs, rest, cls, ok := ex.loopCallRegions(in.Common(), inLoop); ok {
					for k, ids := range regs {
						regionHavoc[k] = append(regionHavoc[k], ids...)
					}
					for _, k := range rest {
						wholeKeys[k] = true
					}
					cellsToHavoc = append(cellsToHavoc, cls...)
					continue
				}
				eff := ex.callEffect(in.Common())
				switch {
				case eff.all:
					all = true
				default:
					for _, t := range eff.types {
						markType(t)
					}
					for _, k := range eff.keys {
						wholeKeys[k] = true
					}
					for _, lv := range eff.cells {
						// callee cell sets are expressed over callee params: be
						// conservative and havoc the whole type
						markType(lv)
					}
				}
			case *ssa.Defer, *ssa.Go:
				// handled at RunDefers / dropped
			}
		}
	}
	if all {
		// everything except private allocations; the private cells that the
		// loop itself writes are havocked below
		ex.havocAllKeepPrivate()
		keep := map[string]bool{}
		for k := range wholeKeys {
			if strings.HasPrefix(k, "Mghost ") {
				keep[k] = true // counters bumped inside this loop
			}
		}
		wholeKeys = keep
	}
	for _, cl := range cellsToHavoc {
		c.havocCell(ex.cur, cl, "loopcell")
	}
	// field regions written by callees: fresh array that agrees with the
	// pre-loop array outside the region
	var rks []string
	for k := range regionHavoc {
		if !wholeKeys[k] {
			rks = append(rks, k)
		}
	}
	sort.Strings(rks)
	for _, k := range rks {
		old := c.memRaw(ex.cur, k)
		c.havocKey(ex.cur, k)
		nw := ex.cur.m[k]
		a := c.fresh("a")
		c.bound[a] = true
		var in []Term
		for _, id := range regionHavoc[k] {
			in = append(in, eq(app("ftag", a), fmt.Sprint(id)))
		}
		c.hasQ = true
		c.assume(fmt.Sprintf("(forall ((%s Int)) (! %s :pattern ((select %s %s))))", a,
			or(append(in, eq(app("select", nw, a), app("select", old, a)))...), nw, a))
	}
	for _, mh := range ex.pendingMapHavoc {
		for _, k := range ex.mapKeysOf(mh.mt) {
			if wholeKeys[k] {
				continue
			}
			old := c.memRaw(ex.cur, k)
			inner := memSorts[k][len("(Array Int ") : len(memSorts[k])-1]
			nv := c.declConst(c.fresh("hmap"), inner)
			ex.cur.m[k] = c.define("mem", memSorts[k], app("store", old, mh.ref, nv))
		}
	}
	ex.pendingMapHavoc = nil
	var ks []string
	for k := range wholeKeys {
		ks = append(ks, k)
	}
	sort.Strings(ks)
	for _, k := range ks {
		c.havocKey(ex.cur, k)
	}
}

// sliceOrigin: if address v denotes (a field of) an element of a slice, the
// SSA value of that slice.
func sliceOrigin(v ssa.Value) ssa.Value {
	for {
		switch x := v.(type) {
		case *ssa.FieldAddr:
			v = x.X
		case *ssa.IndexAddr:
			if _, ok := x.X.Type().Underlying().(*types.Slice); ok {
				return x.X
			}
			v = x.X
		default:
			return nil
		}
	}
}

func rootAlloc(v ssa.Value) *ssa.Alloc {
	for {
		switch x := v.(type) {
		case *ssa.Alloc:
			return x
		case *ssa.FieldAddr:
			v = x.X
		case *ssa.IndexAddr:
			v = x.X
		default:
			return nil
		}
	}
}

// loopCallRegions: for a call in a loop whose contract modifies only field
// regions (fieldmem) and whole map/type memories, the regions and the keys.
func (ex *Exec) loopCallRegions(cc *ssa.CallCommon, inLoop func(ssa.Value) bool) (regs map[string][]int, rest []string, cells []cell, ok bool) {
	var fc *FuncContract
	var fn *ssa.Function
	if cc.IsInvoke() {
		fc = ex.ifaceContract(cc)
	} else if fn = cc.StaticCallee(); fn != nil {
		fc = ex.contractFor(fn)
	}
	if fc == nil || !fc.HasMod {
		return nil, nil, nil, false
	}
	defer func() {
		if r := recover(); r != nil {
			regs, rest, cells, ok = nil, nil, nil, false
		}
	}()
	regs = map[string][]int{}
	has := false
	var env *Env
	for _, m := range fc.Modifies {
		switch {
		case m == "everything":
			return nil, nil, nil, false
		case strings.HasPrefix(m, "typemem("):
			t := ex.v.lookupType(ex.v.pkgOf(fc.Pkg), strings.TrimSuffix(strings.TrimPrefix(m, "typemem("), ")"))
			if t == nil {
				return nil, nil, nil, false
			}
			has = true
			for _, cl := range ex.c.cells("0", t) {
				for i, so := range ex.c.leafSorts(cl.t) {
					ex.c.memGet(ex.cur, cl.t, i, so)
					rest = append(rest, ex.c.memName(cl.t, i))
				}
			}
		case strings.HasPrefix(m, "map("):
			// the entry of one (loop-invariant) map reference
			if env == nil {
				env = ex.loopCallEnv(fc, fn, cc, inLoop)
			}
			e, err := ParseExpr(strings.TrimSuffix(strings.TrimPrefix(m, "map("), ")"))
			if err != nil {
				return nil, nil, nil, false
			}
			mv, err := env.Value(e)
			if err != nil || mv.K != KRef || mv.T == "unavailable" {
				return nil, nil, nil, false
			}
			mt, isMap := mv.Typ.Underlying().(*types.Map)
			if !isMap {
				return nil, nil, nil, false
			}
			has = true
			ex.pendingMapHavoc = append(ex.pendingMapHavoc, mapHavoc{mt, mv.T})
		case strings.HasPrefix(m, "fieldmem("):
			has = true
			for k, ids := range ex.fieldRegion(ex.v.pkgOf(fc.Pkg), m) {
				regs[k] = append(regs[k], ids...)
			}
		case strings.HasPrefix(m, "mapsof("):
			t := ex.v.lookupType(ex.v.pkgOf(fc.Pkg), strings.TrimSuffix(strings.TrimPrefix(m, "mapsof("), ")"))
			if t == nil {
				return nil, nil, nil, false
			}
			for _, mt := range mapsOf(t, map[string]bool{}) {
				rest = append(rest, ex.mapKeysOf(mt)...)
			}
		default:
			if env == nil {
				env = ex.loopCallEnv(fc, fn, cc, inLoop)
			}
			cs, cok := func() (cs []cell, cok bool) {
				defer func() {
					if r := recover(); r != nil {
						cs, cok = nil, false
					}
				}()
				return ex.lvalueCells(env, m, fc.Full()), true
			}()
			if cok {
				cells = append(cells, cs...)
				break
			}
			fr, fok := ex.staticFieldRegion(fc, fn, cc, m)
			if !fok {
				return nil, nil, nil, false
			}
			has = true
			for k, ids := range fr {
				regs[k] = append(regs[k], ids...)
			}
		}
	}
	return regs, rest, cells, has
}

type mapHavoc struct {
	mt  *types.Map
	ref Term
}

// loopCallEnv binds the callee's parameters to the loop-invariant arguments of
// a call inside a loop (arguments computed inside the loop are unavailable).
func (ex *Exec) loopCallEnv(fc *FuncContract, fn *ssa.Function, cc *ssa.CallCommon, inLoop func(ssa.Value) bool) *Env {
	var args []Val
	for _, a := range cc.Args {
		if inLoop(a) {
			if t, ok := ex.staticAddr(a, inLoop); ok {
				args = append(args, refVal(t, a.Type()))
				continue
			}
			args = append(args, Val{K: KLit, T: "unavailable"})
			continue
		}
		args = append(args, ex.val(a))
	}
	env := &Env{c: ex.c, v: ex.v, vars: map[string]Val{}, mem: ex.cur, pkg: ex.v.pkgOf(fc.Pkg)}
	ex.bindParams(env, fn, cc, Val{}, args)
	return env
}

// staticAddr: the address denoted by v if it is computed from loop-invariant
// values by field selection only.
func (ex *Exec) staticAddr(v ssa.Value, inLoop func(ssa.Value) bool) (Term, bool) {
	if !inLoop(v) {
		if a, ok := ex.vals[v]; ok && a.K == KRef && a.T != "" && a.EP == nil {
			return a.T, true
		}
		if g, ok := v.(*ssa.Global); ok {
			return ex.v.globalAddr(ex.c, g), true
		}
		return "", false
	}
	if fa, ok := v.(*ssa.FieldAddr); ok {
		if base, ok := ex.staticAddr(fa.X, inLoop); ok {
			return ex.c.fieldAddr(base, fa.X.Type().Underlying().(*types.Pointer).Elem(), fa.Field), true
		}
	}
	return "", false
}

// loopCallCells: when a call inside a loop has a contract whose modifies
// clause is a finite list of cells that depend only on loop-invariant
// arguments, the exact cells are returned.
func (ex *Exec) loopCallCells(cc *ssa.CallCommon, inLoop func(ssa.Value) bool) (cells []cell, ok bool) {
	if cc.IsInvoke() {
		return nil, false
	}
	fn := cc.StaticCallee()
	if fn == nil {
		return nil, false
	}
	fc := ex.contractFor(fn)
	if fc == nil || !fc.HasMod {
		return nil, false
	}
	for _, m := range fc.Modifies {
		if m == "everything" || strings.Contains(m, "(") {
			return nil, false
		}
	}
	defer func() {
		if r := recover(); r != nil {
			cells, ok = nil, false
		}
	}()
	var args []Val
	for _, a := range cc.Args {
		if inLoop(a) {
			if t, ok := ex.staticAddr(a, inLoop); ok {
				args = append(args, refVal(t, a.Type()))
				continue
			}
			args = append(args, Val{K: KLit, T: "unavailable"})
			continue
		}
		args = append(args, ex.val(a))
	}
	env := &Env{c: ex.c, v: ex.v, vars: map[string]Val{}, mem: ex.cur, pkg: ex.v.pkgOf(fc.Pkg)}
	ex.bindParams(env, fn, cc, Val{}, args)
	for _, m := range fc.Modifies {
		cells = append(cells, ex.lvalueCells(env, m, fc.Full())...)
	}
	return cells, true
}

func (ex *Exec) touchMap(mt *types.Map) {
	c := ex.c
	ks := c.mapKeySort(mt)
	c.mapMemKey(mt, "dom", arrSort(ks, SBool))
	c.mapMemKey(mt, "len", bvSort(64))
	for i, s := range c.leafSorts(mt.Elem()) {
		c.mapMemKey(mt, fmt.Sprintf("val#%d", i), arrSort(ks, s))
	}
}

// breakEdges: step clauses speak about every completed iteration, and the
// conclusions drawn from them ("every element is processed") need the loop
// to run to the end of its range. An edge from inside the body to the block
// the loop header exits to (a `break`) is therefore an obligation that the
// edge cannot be taken — for loops that have step clauses.
func (ex *Exec) breakEdges(b *ssa.BasicBlock) {
	var hs []*ssa.BasicBlock
	for h := range ex.loops {
		hs = append(hs, h)
	}
	sort.Slice(hs, func(i, j int) bool { return hs[i].Index < hs[j].Index })
	for _, h := range hs {
		li := ex.loops[h]
		if li.spec == nil || len(li.spec.Steps) == 0 || b == h || !li.body[b] {
			continue
		}
		var exit *ssa.BasicBlock
		for _, hs := range h.Succs {
			if !li.body[hs] {
				exit = hs
			}
		}
		if exit == nil {
			continue
		}
		for _, s := range b.Succs {
			if li.body[s] {
				continue
			}
			// an edge that leaves the body and rejoins the code after the
			// loop (break, goto): early returns and panics do not rejoin
			seen := map[*ssa.BasicBlock]bool{}
			var reaches func(x *ssa.BasicBlock) bool
			reaches = func(x *ssa.BasicBlock) bool {
				if x == exit {
					return true
				}
				if seen[x] || li.body[x] {
					return false
				}
				seen[x] = true
				for _, y := range x.Succs {
					if reaches(y) {
						return true
					}
				}
				return false
			}
			if reaches(s) {
				ex.addObl(fmt.Sprintf("loop%d/complete", li.index), "", ex.edgeCond(b, s), "false", li.pos,
					"the loop has per-iteration step clauses and must run to the end of its range: no `break` out of its body", false)
			}
		}
	}
}

// backEdge is called when a block ends with a jump to a loop header.
func (ex *Exec) backEdge(from, h *ssa.BasicBlock) {
	li := ex.loops[h]
	cond := ex.edgeCond(from, h)
	env := ex.loopEnv(h, func(phi *ssa.Phi) Val { return ex.phiEdgeVal(phi, h, from) }, ex.cur)
	ex.bindDominating(env, from.Instrs[len(from.Instrs)-1])
	for k, nv := range ex.top.named {
		if _, clash := env.vars[k]; !clash {
			env.vars[k] = nv
		}
	}
	if auto := ex.autoRange[h]; auto != nil {
		ex.addObl(fmt.Sprintf("loop%d/range-preserve", li.index), "", cond, auto.holds(ex.phiEdgeVal(auto.phi, h, from).T), li.pos, "-1 <= rangeindex < len (automatic)", false)
	}
	if li.spec != nil {
		for k, inv := range li.spec.Invariants {
			t, err := env.Goal(inv.E)
			if err != nil {
				if !staleRef(err) {
					unsup("loop %d invariant: %v", li.index, err)
				}
				t = "false"
			}
			ex.addLoopPart(fmt.Sprintf("loop%d/inv-preserve", li.index), k, inv, cond, t, li.pos)
		}
		if len(li.spec.Steps) > 0 {
			// Step clauses may name calls that sit on another path through
			// the body and are met later in the block order: they are
			// evaluated when the whole function has been executed, in the
			// state of this back edge.
			senv := env.child()
			senv.mem = ex.cur.clone()
			senv.prev = ex.headerEnv[h]
			ex.top.deferred = append(ex.top.deferred, func() {
				for k, nv := range ex.top.named {
					if _, clash := senv.vars[k]; !clash {
						senv.vars[k] = nv
					}
				}
				for k, st := range li.spec.Steps {
					t, err := senv.Goal(st.E)
					if err != nil {
						if staleRef(err) {
							// the clause speaks about a call or local that does
							// not exist (any more)
							t = "false"
						} else {
							unsup("loop %d step: %v", li.index, err)
						}
					}
					ex.addLoopPart(fmt.Sprintf("loop%d/step", li.index), k, st, cond, t, li.pos)
				}
			})
		}
		if li.spec.Decreases != nil {
			nv, err := env.Value(li.spec.Decreases.E)
			if err != nil {
				unsup("loop %d decreases: %v", li.index, err)
			}
			ov := ex.decAtHeader[h]
			var goal Term
			if nv.K == KBV {
				if nv.Signed {
					goal = and(app("bvslt", nv.T, ov.T), app("bvsge", ov.T, bvLit(nv.W, 0)))
				} else {
					goal = app("bvult", nv.T, ov.T)
				}
			} else {
				goal = and(app("<", nv.T, ov.T), app(">=", ov.T, "0"))
			}
			ex.addObl(fmt.Sprintf("loop%d/decreases", li.index), "", cond, goal, li.pos, li.spec.Decreases.Text, false)
		}
	}
}
