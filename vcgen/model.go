package main

// model.go — strings/slices, maps, interfaces and floats on top of core.go.

import (
	"os"
	"fmt"
	"go/types"
	"math"
	"strings"
)

func fpOfFloat(f float64) Term {
	b := math.Float64bits(f)
	sign := b >> 63
	exp := (b >> 52) & 0x7ff
	man := b & ((1 << 52) - 1)
	return fmt.Sprintf("(fp #b%b #b%011b #x%013x)", sign, exp, man)
}

// ---------------------------------------------------------------- strings

var strConsts = map[string]Val{}
var strConstOf = map[string]string{} // arr term -> literal

const maxLitExpand = 64

func (c *Ctx) strConst(s string) Val {
	if v, ok := strConsts[s]; ok && c.funDecl["strlit:"+s] {
		return v
	}
	c.funDecl["strlit:"+s] = true
	asort := arrSort(bvSort(64), bvSort(8))
	name := c.fresh("lit")
	if len(s) <= maxLitExpand {
		base := c.fresh("litbase")
		c.emit(fmt.Sprintf("(declare-const %s %s)", base, asort))
		t := base
		for i := 0; i < len(s); i++ {
			t = app("store", t, bvLit(64, uint64(i)), bvLit(8, uint64(s[i])))
		}
		c.emit(fmt.Sprintf("(define-fun %s () %s %s)", name, asort, t))
	} else {
		c.emit(fmt.Sprintf("(declare-const %s %s)", name, asort))
	}
	v := Val{K: KSlice, Typ: types.Typ[types.String], Arr: []Term{name}, Off: bvLit(64, 0), Len: bvLit(64, uint64(len(s))), Elem: types.Typ[types.Uint8]}
	strConsts[s] = v
	strConstOf[name] = s
	return v
}

func (c *Ctx) constOfStr(v Val) (string, bool) {
	if v.K != KSlice || len(v.Arr) != 1 {
		return "", false
	}
	s, ok := strConstOf[v.Arr[0]]
	if !ok {
		return "", false
	}
	if v.Off != bvLit(64, 0) || v.Len != bvLit(64, uint64(len(s))) {
		return "", false
	}
	return s, true
}

func (c *Ctx) sliceElem(x Val, i Term) Val {
	idx := app("bvadd", x.Off, i)
	if x.Off == bvLit(64, 0) {
		idx = i
	}
	for _, a := range x.Arr {
		c.instantiateAt(a, i)
	}
	ls := make([]Term, len(x.Arr))
	for k, a := range x.Arr {
		ls[k] = app("select", a, idx)
	}
	v, _ := c.build(x.Elem, ls)
	return v
}

func (c *Ctx) strKey(x Val) Term {
	if len(x.Arr) != 1 {
		efail("strkey of non-byte slice")
	}
	t := app("strkey", x.Arr[0], x.Off, x.Len)
	// all empty strings are equal: one key for length 0
	if !c.faSeen["empty:"+t] && os.Getenv("VCGEN_NOKEYLEN") == "" {
		c.faSeen["empty:"+t] = true
		if !c.funDecl["emptykey"] {
			c.funDecl["emptykey"] = true
			c.emit("(declare-const emptykey StrKey)")
			c.emit("(declare-fun keylen (StrKey) (_ BitVec 64))")
		}
		// equal strings have equal lengths
		c.pending = append(c.pending, eq(app("keylen", t), x.Len))
		// and equal bytes: stated for literals, so that distinct literals
		// of one length have distinct keys
		if lit, ok := c.constOfStr(x); ok && len(lit) <= maxLitExpand {
			if !c.funDecl["keybyte"] {
				c.funDecl["keybyte"] = true
				c.emit("(declare-fun keybyte (StrKey (_ BitVec 64)) (_ BitVec 8))")
			}
			for i := 0; i < len(lit); i++ {
				c.pending = append(c.pending, eq(app("keybyte", t, bvLit(64, uint64(i))), bvLit(8, uint64(lit[i]))))
			}
		}
		if x.Len == bvLit(64, 0) {
			c.pending = append(c.pending, eq(t, "emptykey"))
		} else if !strings.HasPrefix(x.Len, "#x") && !strings.HasPrefix(x.Len, "(_ bv") {
			c.pending = append(c.pending, imp(eq(x.Len, bvLit(64, 0)), eq(t, "emptykey")))
		}
	}
	return t
}

// strEq: Go's == on strings. Against a literal it is expanded to bytes;
// between two symbolic strings it is equality of an uninterpreted key that is
// a function of (array, offset, length) — of which the real content is one
// instance, so anything proved holds for real string equality.
func (c *Ctx) strEq(a, b Val) Term {
	if sa, ok := c.constOfStr(a); ok {
		if sb, ok := c.constOfStr(b); ok {
			// two literals: decided at generation time
			if sa == sb {
				return "true"
			}
			return "false"
		}
	}
	if s, ok := c.constOfStr(b); ok && len(s) <= maxLitExpand {
		return c.eqLit(a, s)
	}
	if s, ok := c.constOfStr(a); ok && len(s) <= maxLitExpand {
		return c.eqLit(b, s)
	}
	if len(a.Arr) != 1 || len(b.Arr) != 1 {
		efail("== on non-string slices")
	}
	if a.Arr[0] == b.Arr[0] && a.Off == b.Off && a.Len == b.Len {
		return "true"
	}
	return eq(c.strKey(a), c.strKey(b))
}

func (c *Ctx) eqLit(a Val, s string) Term {
	ts := []Term{eq(a.Len, bvLit(64, uint64(len(s))))}
	for i := 0; i < len(s); i++ {
		ts = append(ts, eq(c.sliceElem(a, bvLit(64, uint64(i))).T, bvLit(8, uint64(s[i]))))
	}
	return and(ts...)
}

func (c *Ctx) hasPrefixQ(s, p Val) Term {
	if lit, ok := c.constOfStr(p); ok && len(lit) <= maxLitExpand {
		ts := []Term{app("bvsle", bvLit(64, uint64(len(lit))), s.Len)}
		for i := 0; i < len(lit); i++ {
			ts = append(ts, eq(c.sliceElem(s, bvLit(64, uint64(i))).T, bvLit(8, uint64(lit[i]))))
		}
		return and(ts...)
	}
	// opaque predicate with its definition asserted per application: equal
	// arguments give equal truth values by congruence, without the solver
	// having to compare two quantified formulas.
	asort := arrSort(bvSort(64), bvSort(8))
	c.declFun("hasprefix", []string{asort, bvSort(64), bvSort(64), asort, bvSort(64), bvSort(64)}, SBool)
	t := app("hasprefix", s.Arr[0], s.Off, s.Len, p.Arr[0], p.Off, p.Len)
	if !c.faSeen["def:"+t] {
		c.faSeen["def:"+t] = true
		k := c.fresh("k")
		c.bound[k] = true
		c.hasQ = true
		body := imp(and(app("bvsle", bvLit(64, 0), k), app("bvslt", k, p.Len)),
			eq(c.sliceElem(s, k).T, c.sliceElem(p, k).T))
		c.pending = append(c.pending, eq(t, and(app("bvsle", p.Len, s.Len), fmt.Sprintf("(forall ((%s (_ BitVec 64))) %s)", k, body))))
	}
	return t
}

// ---------------------------------------------------------------- maps

func (c *Ctx) mapKeySort(mt *types.Map) string {
	if isString(mt.Key()) {
		return SKey
	}
	ls := c.leafSorts(mt.Key())
	if len(ls) != 1 {
		efail("map key type %s not supported", mt.Key())
	}
	return ls[0]
}

func (c *Ctx) mapKey(mt *types.Map, k Val) Term {
	if k.K == KKey {
		return k.T
	}
	if isString(mt.Key()) {
		return c.strKey(k)
	}
	ls := leaves(k)
	if len(ls) != 1 {
		efail("map key with %d leaves", len(ls))
	}
	return ls[0]
}

func (c *Ctx) mapMemKey(mt *types.Map, part string, sort string) string {
	k := fmt.Sprintf("Mmap %s %s", typeKey(mt), part)
	if _, ok := memSorts[k]; !ok {
		memSorts[k] = arrSort(SRef, sort)
		memTypes[k] = mt
	}
	return k
}

func (c *Ctx) mapLookup(ms *MemState, ref Term, mt *types.Map, key Term) (Term, Val) {
	ks := c.mapKeySort(mt)
	dom := app("select", c.memRaw(ms, c.mapMemKey(mt, "dom", arrSort(ks, SBool))), ref)
	in := app("select", dom, key)
	sorts := c.leafSorts(mt.Elem())
	ls := make([]Term, len(sorts))
	zs := leaves(c.zeroVal(mt.Elem()))
	for i, s := range sorts {
		arr := app("select", c.memRaw(ms, c.mapMemKey(mt, fmt.Sprintf("val#%d", i), arrSort(ks, s))), ref)
		ls[i] = iteT(in, app("select", arr, key), zs[i])
	}
	v, _ := c.build(mt.Elem(), ls)
	return in, v
}

func (c *Ctx) mapLen(ms *MemState, ref Term, mt *types.Map) Term {
	return app("select", c.memRaw(ms, c.mapMemKey(mt, "len", bvSort(64))), ref)
}

func (c *Ctx) mapUpdate(ms *MemState, ref Term, mt *types.Map, key Term, v Val) {
	ks := c.mapKeySort(mt)
	dk := c.mapMemKey(mt, "dom", arrSort(ks, SBool))
	domAll := c.memRaw(ms, dk)
	dom := app("select", domAll, ref)
	in := c.define("inmap", SBool, app("select", dom, key))
	lk := c.mapMemKey(mt, "len", bvSort(64))
	lenAll := c.memRaw(ms, lk)
	oldLen := app("select", lenAll, ref)
	ms.m[lk] = c.define("mem", memSorts[lk], app("store", lenAll, ref, iteT(in, oldLen, app("bvadd", oldLen, bvLit(64, 1)))))
	ms.m[dk] = c.define("mem", memSorts[dk], app("store", domAll, ref, app("store", dom, key, "true")))
	sorts := c.leafSorts(mt.Elem())
	ls := leaves(v)
	for i, s := range sorts {
		vk := c.mapMemKey(mt, fmt.Sprintf("val#%d", i), arrSort(ks, s))
		all := c.memRaw(ms, vk)
		ms.m[vk] = c.define("mem", memSorts[vk], app("store", all, ref, app("store", app("select", all, ref), key, ls[i])))
	}
}

func (c *Ctx) mapDelete(ms *MemState, ref Term, mt *types.Map, key Term) {
	ks := c.mapKeySort(mt)
	dk := c.mapMemKey(mt, "dom", arrSort(ks, SBool))
	domAll := c.memRaw(ms, dk)
	dom := app("select", domAll, ref)
	in := c.define("inmap", SBool, app("select", dom, key))
	lk := c.mapMemKey(mt, "len", bvSort(64))
	lenAll := c.memRaw(ms, lk)
	oldLen := app("select", lenAll, ref)
	ms.m[lk] = c.define("mem", memSorts[lk], app("store", lenAll, ref, iteT(in, app("bvsub", oldLen, bvLit(64, 1)), oldLen)))
	ms.m[dk] = c.define("mem", memSorts[dk], app("store", domAll, ref, app("store", dom, key, "false")))
}

// newMap initialises an empty map at a fresh reference.
func (c *Ctx) mapInit(ms *MemState, ref Term, mt *types.Map) {
	ks := c.mapKeySort(mt)
	dk := c.mapMemKey(mt, "dom", arrSort(ks, SBool))
	ms.m[dk] = c.define("mem", memSorts[dk], app("store", c.memRaw(ms, dk), ref, fmt.Sprintf("((as const %s) false)", arrSort(ks, SBool))))
	lk := c.mapMemKey(mt, "len", bvSort(64))
	ms.m[lk] = c.define("mem", memSorts[lk], app("store", c.memRaw(ms, lk), ref, bvLit(64, 0)))
}

// ---------------------------------------------------------------- interfaces

func (c *Ctx) ifaceTag(t types.Type) int {
	k := typeKey(t)
	if id, ok := c.ifaceTags[k]; ok {
		return id
	}
	id := len(c.ifaceTags) + 1
	c.ifaceTags[k] = id
	return id
}

func isRefLike(t types.Type) bool {
	switch t.Underlying().(type) {
	case *types.Pointer, *types.Map, *types.Chan, *types.Signature:
		return true
	}
	return false
}

func (c *Ctx) unboxFun(t types.Type, leaf int, sort string) string {
	n := fmt.Sprintf("|unbox %s #%d|", typeKey(t), leaf)
	c.declFun(n, []string{SIface}, sort)
	return n
}

// box builds an interface value holding v (of concrete type t).
func (c *Ctx) box(v Val, t types.Type) Val {
	if _, isI := t.Underlying().(*types.Interface); isI {
		return v
	}
	tag := c.ifaceTag(t)
	if isRefLike(t) {
		// pointer payloads: the interface value is a function of (tag, ref)
		i := app("mkiface", fmt.Sprint(tag), v.T)
		n := c.define("ifc", SIface, i)
		c.assume(and(eq(app("itag", n), fmt.Sprint(tag)), eq(app("iref", n), v.T)))
		return Val{K: KIface, T: n}
	}
	n := c.declConst(c.fresh("ifc"), SIface)
	ts := []Term{eq(app("itag", n), fmt.Sprint(tag))}
	sorts := c.leafSorts(t)
	ls := leaves(v)
	for i, s := range sorts {
		ts = append(ts, eq(app(c.unboxFun(t, i, s), n), ls[i]))
	}
	c.assume(and(ts...))
	return Val{K: KIface, T: n}
}

func (c *Ctx) unbox(ms *MemState, i Term, t types.Type) Val {
	if isRefLike(t) {
		return Val{K: KRef, T: app("iref", i), Typ: t}
	}
	sorts := c.leafSorts(t)
	ls := make([]Term, len(sorts))
	for k, s := range sorts {
		ls[k] = app(c.unboxFun(t, k, s), i)
	}
	v, _ := c.build(t, ls)
	return v
}

func symName(s string) string {
	if strings.ContainsAny(s, " ()/*[]{},") {
		return "|" + s + "|"
	}
	return s
}

// constArr: an array (index BV64) whose every element is the zero of sort s.
// For element sorts without a literal zero (arrays) an unconstrained array is
// used instead (cvc5 rejects non-value arguments of `as const`).
func (c *Ctx) constArr(s string) Term {
	if strings.HasPrefix(s, "(Array") || s == SIface || s == SKey {
		return c.declConst(c.fresh("arr0"), arrSort(bvSort(64), s))
	}
	return fmt.Sprintf("((as const %s) %s)", arrSort(bvSort(64), s), c.zeroOfSort(s))
}
