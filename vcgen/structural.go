package main

// structural.go — closure obligations decided on the SSA call structure of
// the module (DESIGN §7 C13/C17): they complement per-function contracts by
// showing that *every* site of a sensitive call is one of the audited ones.

import (
	"fmt"
	"go/constant"
	"go/token"
	"go/types"
	"reflect"
	"sort"
	"strconv"
	"strings"
	"unicode"

	"golang.org/x/tools/go/ssa"
	"golang.org/x/tools/go/ssa/ssautil"
)

func (v *Verifier) moduleFuncs() []*ssa.Function {
	var out []*ssa.Function
	for fn := range ssautil.AllFunctions(v.prog) {
		p := pkgOfFn(fn)
		if p == nil || !inModule(p) || strings.Contains(p.Path(), "internal/testutils") {
			continue
		}
		if fn.Synthetic != "" && !strings.Contains(fn.Synthetic, "package initializer") {
			continue
		}
		out = append(out, fn)
	}
	sort.Slice(out, func(i, j int) bool { return out[i].String() < out[j].String() })
	return out
}

// callSites lists (caller, callee name) for static callees matching pred.
func (v *Verifier) callSites(pred func(name string) bool) map[string][]string {
	res := map[string][]string{}
	for _, fn := range v.moduleFuncs() {
		for _, b := range fn.Blocks {
			for _, in := range b.Instrs {
				var cc *ssa.CallCommon
				switch x := in.(type) {
				case *ssa.Call:
					cc = x.Common()
				case *ssa.Go:
					cc = &x.Call
				case *ssa.Defer:
					cc = &x.Call
				}
				if cc == nil {
					continue
				}
				if f := cc.StaticCallee(); f != nil && pred(f.String()) {
					root := fn
					for root.Parent() != nil {
						root = root.Parent()
					}
					res[f.String()] = append(res[f.String()], root.String())
				}
			}
		}
	}
	return res
}

func constantFloat(k *ssa.Const) (float64, bool) {
	f, exact := constant.Float64Val(constant.ToFloat(k.Value))
	return f, exact
}

func isSoughtMap(t types.Type, mp string) bool {
	m, ok := t.Underlying().(*types.Map)
	if !ok {
		return false
	}
	p, ok := m.Elem().(*types.Pointer)
	if !ok {
		return false
	}
	n, ok := p.Elem().(*types.Named)
	return ok && n.Obj().Pkg() != nil && n.Obj().Pkg().Path() == mp+"/sizes" && n.Obj().Name() == "Path"
}

func (v *Verifier) VerifyStructural(name string, propNames []string) *FuncResult {
	res := &FuncResult{Name: "structural/" + name, Ctx: NewCtx()}
	mk := func(ok bool, text string) {
		o := &Obligation{Name: "structural/" + name, Kind: "structural", Func: "structural/" + name, Guard: "true", Goal: "true", Text: text, Ctx: res.Ctx}
		if ok {
			o.Status, o.Solver = "unsat", "ssa-scan"
		} else {
			o.Status, o.Solver = "sat", "ssa-scan"
			o.Raw = text
		}
		res.Obls = append(res.Obls, o)
	}
	mp := modulePath
	switch name {
	case "exec-command-sites":
		// every child process is built by GitCommand or by the one audited
		// `git -C <path> rev-parse --git-dir` in NewRepositoryFromPath
		allowed := map[string]bool{"(*" + mp + "/git.Repository).GitCommand": true, mp + "/git.NewRepositoryFromPath": true}
		sites := v.callSites(func(n string) bool {
			return n == "os/exec.Command" || n == "os/exec.CommandContext" || n == "os.StartProcess" || n == "syscall.Exec" || n == "syscall.ForkExec"
		})
		var bad []string
		n := 0
		for callee, callers := range sites {
			for _, c := range callers {
				n++
				if !allowed[c] {
					bad = append(bad, c+" calls "+callee)
				}
			}
		}
		// the audited direct call must be the read-only rev-parse
		okArgs := false
		if fn := v.findFunc(mp+"/git", "NewRepositoryFromPath"); fn != nil {
			consts := map[string]bool{}
			for _, b := range fn.Blocks {
				for _, in := range b.Instrs {
					for _, op := range in.Operands(nil) {
						if k, ok := (*op).(*ssa.Const); ok && k.Value != nil && isString(k.Type()) {
							consts[k.Value.ExactString()] = true
						}
					}
				}
			}
			okArgs = consts[`"rev-parse"`] && consts[`"--git-dir"`] && consts[`"-C"`]
		}
		sort.Strings(bad)
		mk(len(bad) == 0 && n >= 2 && okArgs, fmt.Sprintf("all %d process-spawning call sites of the module are GitCommand and NewRepositoryFromPath (git -C path rev-parse --git-dir); offending: %v", n, bad))
	case "gitcommand-callers":
		// every caller of GitCommand is under contract in this property, so
		// that its read-only precondition is an obligation at every call site
		under := map[string]bool{}
		for _, pn := range propNames {
			if fc := v.cs.Funcs[pn]; fc != nil {
				if fn := v.findFunc(fc.Pkg, fc.Name); fn != nil {
					under[oldName(fn)] = true
				}
			}
		}
		sites := v.callSites(func(n string) bool { return n == "(*"+mp+"/git.Repository).GitCommand" })
		var bad []string
		n := 0
		for _, callers := range sites {
			for _, c := range callers {
				n++
				if !under[c] {
					bad = append(bad, c)
				}
			}
		}
		sort.Strings(bad)
		mk(len(bad) == 0 && n > 0, fmt.Sprintf("all %d call sites of GitCommand are in functions under contract for this property; not under contract: %v", n, bad))
	case "no-write-apis":
		// the module calls no file-system mutating API except os.Create for
		// the hidden --cpuprofile option in main.mainImplementation
		sites := v.callSites(func(n string) bool {
			for _, p := range []string{"os.Create", "os.OpenFile", "os.WriteFile", "os.Remove", "os.RemoveAll", "os.Rename", "os.Mkdir", "os.MkdirAll", "os.Chmod", "os.Chown", "os.Truncate", "os.Symlink", "os.Link", "io/ioutil.WriteFile", "os.MkdirTemp", "os.CreateTemp", "os.Chdir", "os.Setenv"} {
				if n == p {
					return true
				}
			}
			return false
		})
		var bad []string
		for callee, callers := range sites {
			for _, c := range callers {
				if !(callee == "os.Create" && c == mp+".mainImplementation") {
					bad = append(bad, c+" calls "+callee)
				}
			}
		}
		sort.Strings(bad)
		mk(len(bad) == 0, fmt.Sprintf("no file-system mutating API is called except os.Create under --cpuprofile; offending: %v", bad))
	case "no-map-iteration":
		// Go randomises map iteration order: any `range` over a map in the
		// module could make results or output depend on it (C17: repeated runs
		// are byte-identical; C09: numbers do not depend on enumeration order).
		var bad []string
		for _, fn := range v.moduleFuncs() {
			for _, b := range fn.Blocks {
				for _, in := range b.Instrs {
					if rg, ok := in.(*ssa.Range); ok {
						if _, isMap := rg.X.Type().Underlying().(*types.Map); isMap {
							bad = append(bad, oldName(fn)+" ("+v.posStr(rg.Pos())+")")
						}
					}
				}
			}
		}
		sort.Strings(bad)
		mk(len(bad) == 0, fmt.Sprintf("no function of the module iterates over a map; offending: %v", bad))
	case "items-well-formed":
		// A-ITEMS, decided on the SSA form: every item of the report is built
		// by newItem with a constant, positive, finite reference value and one
		// of the two package-level humaners (which only counts.init writes);
		// the contents handed to the table are an unnamed top-level section.
		var bad []string
		n := 0
		histTags := map[string]string{}
		histRawTags := map[string]string{}
		symbolsSeen := map[string]int{}
		isHumanerGlobal := func(x ssa.Value) bool {
			u, ok := x.(*ssa.UnOp)
			if !ok || u.Op != token.MUL {
				return false
			}
			g, ok := u.X.(*ssa.Global)
			return ok && g.Pkg.Pkg.Path() == mp+"/counts" && (g.Name() == "Metric" || g.Name() == "Binary")
		}
		for _, fn := range v.moduleFuncs() {
			for _, b := range fn.Blocks {
				for _, in := range b.Instrs {
					switch in := in.(type) {
					case *ssa.Call:
						callee := in.Call.StaticCallee()
						if callee == nil || oldName(callee) != mp+"/sizes.newItem" {
							continue
						}
						n++
						args := in.Call.Args
						if len(args) != 8 {
							bad = append(bad, oldName(fn)+": newItem with "+fmt.Sprint(len(args))+" arguments")
							continue
						}
						k, isConst := args[7].(*ssa.Const)
						okScale := false
						if isConst && k.Value != nil {
							if f, exact := constantFloat(k); exact || true {
								okScale = f > 0 && f < 1e300
							}
						}
						if !okScale {
							bad = append(bad, oldName(fn)+" ("+v.posStr(in.Pos())+"): reference value is not a positive finite constant")
						}
						if !isHumanerGlobal(args[5]) {
							bad = append(bad, oldName(fn)+" ("+v.posStr(in.Pos())+"): humaner is not counts.Metric / counts.Binary")
						}
						// bytes are scaled by powers of 1024, counts by powers of
						// 1000 (C12): unit "B" goes with counts.Binary and the
						// empty unit with counts.Metric; there is no other unit
						humanerName := ""
						if u, ok := args[5].(*ssa.UnOp); ok {
							if g, ok := u.X.(*ssa.Global); ok {
								humanerName = g.Name()
							}
						}
						if uk, ok := args[6].(*ssa.Const); !ok || uk.Value == nil {
							bad = append(bad, oldName(fn)+" ("+v.posStr(in.Pos())+"): unit is not a constant")
						} else if us := uk.Value.ExactString(); !(us == `"B"` && humanerName == "Binary") && !(us == `""` && humanerName == "Metric") {
							bad = append(bad, oldName(fn)+" ("+v.posStr(in.Pos())+"): unit "+us+" is paired with counts."+humanerName+" (bytes take binary prefixes, counts take metric ones)")
						}
						// the object cited beside a metric is that metric's own
						// witness: HistorySize field X is cited with field
						// X{Blob,Tree,Commit,Tag} (C08), or with nothing
						histField := func(x ssa.Value) string {
							if mi, ok := x.(*ssa.MakeInterface); ok {
								x = mi.X
							}
							u, ok := x.(*ssa.UnOp)
							if !ok || u.Op != token.MUL {
								return ""
							}
							fa, ok := u.X.(*ssa.FieldAddr)
							if !ok {
								return ""
							}
							pt, ok := fa.X.Type().Underlying().(*types.Pointer)
							if !ok {
								return ""
							}
							nt, ok := pt.Elem().(*types.Named)
							st, ok2 := pt.Elem().Underlying().(*types.Struct)
							if !ok || !ok2 || nt.Obj().Name() != "HistorySize" {
								return ""
							}
							histTags[st.Field(fa.Field).Name()] = strings.TrimSuffix(reflect.StructTag(st.Tag(fa.Field)).Get("json"), ",omitempty")
							histRawTags[st.Field(fa.Field).Name()] = reflect.StructTag(st.Tag(fa.Field)).Get("json")
							return st.Field(fa.Field).Name()
						}
						// "the three formats present the same measurements" (C11):
						// the item published under JSON v2 symbol S reports the
						// HistorySize field whose JSON v1 key is S in snake case,
						// with the two renamings v2 made (maxCheckoutX was
						// max_expanded_X or max_X; maxCommitParentCount was
						// max_parent_count)
						if sk, ok := args[0].(*ssa.Const); ok && sk.Value != nil {
							sym, _ := strconv.Unquote(sk.Value.ExactString())
							vf := histField(args[4])
							tag := histTags[vf]
							want := map[string]bool{snakeCase(sym): true}
							if strings.HasPrefix(sym, "maxCheckout") {
								rest := strings.TrimPrefix(sym, "maxCheckout")
								want = map[string]bool{snakeCase("maxExpanded" + rest): true, snakeCase("max" + rest): true}
							}
							if sym == "maxCommitParentCount" {
								want = map[string]bool{"max_parent_count": true}
							}
							if vf == "" || !want[tag] {
								bad = append(bad, oldName(fn)+" ("+v.posStr(in.Pos())+"): item "+sym+" reports field "+vf+" (JSON v1 key "+tag+")")
							} else if histRawTags[vf] != tag {
								// a measurement is always present in JSON v1 (0 when
								// there is none); only witnesses may be omitted
								bad = append(bad, oldName(fn)+" ("+v.posStr(in.Pos())+"): the JSON v1 key of "+vf+" carries options ("+histRawTags[vf]+"): the measurement would be left out when it is 0")
							}
							symbolsSeen[sym]++
						}
						if pk, isNil := args[3].(*ssa.Const); !(isNil && pk.Value == nil) {
							pf, vf := histField(args[3]), histField(args[4])
							okW := false
							for _, suf := range []string{"Blob", "Tree", "Commit", "Tag"} {
								if vf != "" && pf == vf+suf {
									okW = true
								}
							}
							if okW && !strings.HasSuffix(histRawTags[pf], ",omitempty") {
								// --names=none: no object is cited (C08) -- a nil
								// witness must not appear in JSON v1
								bad = append(bad, oldName(fn)+" ("+v.posStr(in.Pos())+"): witness field "+pf+" is not omitted from JSON v1 when there is no witness (tag "+histRawTags[pf]+")")
							}
							if !okW {
								bad = append(bad, oldName(fn)+" ("+v.posStr(in.Pos())+"): metric "+vf+" is cited with witness field "+pf)
							}
						}
					case *ssa.Store:
						if g, ok := in.Addr.(*ssa.Global); ok && g.Pkg.Pkg.Path() == mp+"/counts" && (g.Name() == "Metric" || g.Name() == "Binary") {
							if oldName(fn) != mp+"/counts.init" {
								bad = append(bad, oldName(fn)+" writes counts."+g.Name())
							}
						}
					}
				}
			}
		}
		// the value returned by contents() is newSection("", …)
		okTop := false
		if fn := v.findFunc(mp+"/sizes", "(*HistorySize).contents"); fn != nil {
			okTop = true
			nret := 0
			for _, b := range fn.Blocks {
				for _, in := range b.Instrs {
					r, ok := in.(*ssa.Return)
					if !ok || len(r.Results) != 1 {
						continue
					}
					nret++
					x := r.Results[0]
					if mi, ok := x.(*ssa.MakeInterface); ok {
						x = mi.X
					}
					c, ok := x.(*ssa.Call)
					if !ok || c.Call.StaticCallee() == nil || c.Call.StaticCallee().String() != mp+"/sizes.newSection" {
						okTop = false
						continue
					}
					k, ok := c.Call.Args[0].(*ssa.Const)
					if !ok || k.Value == nil || k.Value.ExactString() != `""` {
						okTop = false
					}
				}
			}
			if nret == 0 {
				okTop = false
			}
		}
		var dupSyms []string
		for sym, k := range symbolsSeen {
			if k > 1 {
				dupSyms = append(dupSyms, sym)
			}
		}
		sort.Strings(dupSyms)
		for _, sym := range dupSyms {
			bad = append(bad, "symbol "+sym+" is used by more than one item")
		}
		sort.Strings(bad)
		mk(len(bad) == 0 && n > 0 && okTop, fmt.Sprintf("all %d newItem call sites pass a positive finite constant reference value and counts.Metric with the empty unit or counts.Binary with unit B (humaners written only by counts.init); contents() returns an unnamed top-level section: %v; offending: %v", n, okTop, bad))
	case "no-shared-globals":
		// Package-level variables are shared by every goroutine of a scan
		// (feeders, pipeline stages, aggregation, the progress ticker). The
		// module writes them only while packages are initialised and inside
		// the one sync.Once of git.findGitBin; anywhere else a write -- also
		// through a slice or pointer taken from the variable, e.g. a scratch
		// buffer -- is a data race (C17) or makes output depend on the
		// schedule.
		var bad []string
		nGlob := 0
		rootGlobal := func(x ssa.Value) *ssa.Global {
			for i := 0; i < 16 && x != nil; i++ {
				switch t := x.(type) {
				case *ssa.Global:
					return t
				case *ssa.FieldAddr:
					x = t.X
				case *ssa.IndexAddr:
					x = t.X
				case *ssa.Slice:
					x = t.X
				case *ssa.ChangeType:
					x = t.X
				case *ssa.Convert:
					x = t.X
				default:
					return nil
				}
			}
			return nil
		}
		allowedWriter := func(fn *ssa.Function) bool {
			s := oldName(fn)
			return strings.HasSuffix(s, ".init") || strings.Contains(s, ".init$") || s == mp+"/git.findGitBin$1"
		}
		for _, fn := range v.moduleFuncs() {
			for _, b := range fn.Blocks {
				for _, in := range b.Instrs {
					var g *ssa.Global
					what := ""
					switch in := in.(type) {
					case *ssa.Store:
						g, what = rootGlobal(in.Addr), "stores to"
					case *ssa.MapUpdate:
						if u, ok := in.Map.(*ssa.UnOp); ok && u.Op == token.MUL {
							g, what = rootGlobal(u.X), "updates the map in"
						}
					case *ssa.Call:
						// copy(dst, …) and library functions that fill their argument
						// (named Encode, Decode, Put…, Append…, Read…, Unmarshal,
						// Scan…), given a slice of or a pointer into the variable
						cn := calleeName(&in.Call)
						writer := false
						for _, w := range []string{"copy", "Encode", "Decode", "Put", "Append", "Read", "Unmarshal", "Scan", "Format", "Write"} {
							if strings.Contains(cn[strings.LastIndex(cn, ".")+1:], w) {
								writer = true
							}
						}
						if !writer {
							continue
						}
						for _, a := range in.Call.Args {
							if _, isPtr := a.Type().Underlying().(*types.Pointer); !isPtr {
								if _, isSl := a.Type().Underlying().(*types.Slice); !isSl {
									continue
								}
							}
							if gg := rootGlobal(a); gg != nil {
								if callee := in.Call.StaticCallee(); callee != nil && callee.Pkg != nil && (callee.Pkg.Pkg.Path() == "sync/atomic" || (callee.Pkg.Pkg.Path() == "sync" && strings.Contains(oldName(callee), "Once"))) {
									continue
								}
								g, what = gg, "passes to "+calleeName(&in.Call)+" a pointer or slice into"
							}
						}
					}
					if g == nil || g.Pkg == nil || !inModule(g.Pkg.Pkg) {
						continue
					}
					nGlob++
					if !allowedWriter(fn) {
						bad = append(bad, oldName(fn)+" ("+v.posStr(in.Pos())+") "+what+" package-level variable "+g.Pkg.Pkg.Name()+"."+g.Name())
					}
				}
			}
		}
		sort.Strings(bad)
		mk(len(bad) == 0 && nGlob > 0, fmt.Sprintf("%d writes to package-level variables of the module, all during package initialisation or inside the sync.Once of findGitBin; offending: %v", nGlob, bad))
	case "sent-buffers-fresh":
		// A byte slice handed to another goroutine over a channel must not be
		// written again by the sender: every slice inside a sent value is cut
		// from memory allocated after the previous send -- it does not come
		// from a variable that lives across iterations of the sending loop,
		// from a parameter, a captured variable or a package-level variable
		// (C17: no data race between pipeline stages and aggregation; C09).
		var bad []string
		nSend := 0
		for _, fn := range v.moduleFuncs() {
			dom := func(a, b *ssa.BasicBlock) bool { return a.Dominates(b) }
			isLoopHeader := func(b *ssa.BasicBlock) bool {
				for _, p := range b.Preds {
					if dom(b, p) {
						return true
					}
				}
				return false
			}
			var origin func(x ssa.Value, depth int, seen map[ssa.Value]bool) string
			origin = func(x ssa.Value, depth int, seen map[ssa.Value]bool) string {
				if x == nil || depth > 40 || seen[x] {
					return ""
				}
				seen[x] = true
				switch t := x.(type) {
				case *ssa.MakeSlice, *ssa.Const, *ssa.Call:
					return ""
				case *ssa.Slice:
					return origin(t.X, depth+1, seen)
				case *ssa.ChangeType:
					return origin(t.X, depth+1, seen)
				case *ssa.Convert:
					return "" // string <-> []byte conversions copy
				case *ssa.Phi:
					if isLoopHeader(t.Block()) {
						return "a variable that lives across iterations (" + t.Comment + ")"
					}
					for _, e := range t.Edges {
						if r := origin(e, depth+1, seen); r != "" {
							return r
						}
					}
					return ""
				case *ssa.Parameter:
					return "parameter " + t.Name()
				case *ssa.FreeVar:
					return "captured variable " + t.Name()
				case *ssa.Global:
					return "package-level variable " + t.Name()
				case *ssa.UnOp:
					if t.Op == token.MUL {
						if a, ok := t.X.(*ssa.Alloc); ok {
							// a local variable in memory: what was stored into it
							for _, r := range *a.Referrers() {
								if st, ok := r.(*ssa.Store); ok && st.Addr == a {
									if o := origin(st.Val, depth+1, seen); o != "" {
										return o
									}
								}
							}
							return ""
						}
						return origin(t.X, depth+1, seen)
					}
					return ""
				case *ssa.FieldAddr:
					return origin(t.X, depth+1, seen)
				case *ssa.IndexAddr:
					return origin(t.X, depth+1, seen)
				case *ssa.Alloc:
					if t.Heap {
						return ""
					}
					return ""
				}
				return ""
			}
			hasByteSlice := func(t types.Type) bool {
				var rec func(t types.Type, d int) bool
				rec = func(t types.Type, d int) bool {
					if d > 6 {
						return false
					}
					switch u := t.Underlying().(type) {
					case *types.Slice:
						return true
					case *types.Struct:
						for i := 0; i < u.NumFields(); i++ {
							if rec(u.Field(i).Type(), d+1) {
								return true
							}
						}
					}
					return false
				}
				return rec(t, 0)
			}
			// slices stored in the fields of a struct value that is sent
			var sentSlices func(x ssa.Value, depth int) []ssa.Value
			sentSlices = func(x ssa.Value, depth int) []ssa.Value {
				if depth > 8 || x == nil {
					return nil
				}
				if _, ok := x.Type().Underlying().(*types.Slice); ok {
					return []ssa.Value{x}
				}
				if _, ok := x.Type().Underlying().(*types.Struct); !ok {
					return nil
				}
				var out []ssa.Value
				if u, ok := x.(*ssa.UnOp); ok && u.Op == token.MUL {
					if a, ok := u.X.(*ssa.Alloc); ok {
						for _, r := range *a.Referrers() {
							switch r := r.(type) {
							case *ssa.FieldAddr:
								for _, rr := range *r.Referrers() {
									if st, ok := rr.(*ssa.Store); ok && st.Addr == r {
										out = append(out, sentSlices(st.Val, depth+1)...)
									}
								}
							case *ssa.Store:
								if r.Addr == a {
									out = append(out, sentSlices(r.Val, depth+1)...)
								}
							}
						}
					}
				}
				return out
			}
			check := func(val ssa.Value, at ssa.Instruction) {
				if !hasByteSlice(val.Type()) {
					return
				}
				nSend++
				for _, sl := range sentSlices(val, 0) {
					if o := origin(sl, 0, map[ssa.Value]bool{}); o != "" {
						bad = append(bad, oldName(fn)+" ("+v.posStr(at.Pos())+"): a slice sent over a channel is cut from "+o)
					}
				}
			}
			for _, b := range fn.Blocks {
				for _, in := range b.Instrs {
					switch in := in.(type) {
					case *ssa.Send:
						check(in.X, in)
					case *ssa.Select:
						for _, st := range in.States {
							if st.Dir == types.SendOnly && st.Send != nil {
								check(st.Send, in)
							}
						}
					}
				}
			}
		}
		sort.Strings(bad)
		mk(len(bad) == 0 && nSend > 0, fmt.Sprintf("%d channel sends carry slices, each cut from memory allocated since the previous send; offending: %v", nSend, bad))
	case "atomic-consistency":
		// A memory cell that is accessed through sync/atomic anywhere is
		// accessed through sync/atomic everywhere (outside constructors'
		// composite literals): a plain read or write of such a field next to
		// atomic accesses from another goroutine is a data race (C17), and a
		// lost or torn update of the progress counter (C18).
		atomicFields := map[string]bool{}
		fieldKey := func(v ssa.Value) string {
			fa, ok := v.(*ssa.FieldAddr)
			if !ok {
				return ""
			}
			pt, ok := fa.X.Type().Underlying().(*types.Pointer)
			if !ok {
				return ""
			}
			nt, ok := pt.Elem().(*types.Named)
			st, ok2 := pt.Elem().Underlying().(*types.Struct)
			if !ok || !ok2 || nt.Obj().Pkg() == nil {
				return ""
			}
			return nt.Obj().Pkg().Path() + "." + nt.Obj().Name() + "." + st.Field(fa.Field).Name()
		}
		for _, fn := range v.moduleFuncs() {
			for _, b := range fn.Blocks {
				for _, in := range b.Instrs {
					if c, ok := in.(*ssa.Call); ok {
						if callee := c.Call.StaticCallee(); callee != nil && callee.Pkg != nil && callee.Pkg.Pkg.Path() == "sync/atomic" && len(c.Call.Args) > 0 {
							if k := fieldKey(c.Call.Args[0]); k != "" {
								atomicFields[k] = true
							}
						}
					}
				}
			}
		}
		var bad []string
		for _, fn := range v.moduleFuncs() {
			for _, b := range fn.Blocks {
				for _, in := range b.Instrs {
					fa, ok := in.(*ssa.FieldAddr)
					if !ok {
						continue
					}
					k := fieldKey(fa)
					if !atomicFields[k] {
						continue
					}
					for _, ref := range *fa.Referrers() {
						switch r := ref.(type) {
						case *ssa.DebugRef:
						case *ssa.Call:
							if callee := r.Call.StaticCallee(); callee == nil || callee.Pkg == nil || callee.Pkg.Pkg.Path() != "sync/atomic" {
								bad = append(bad, oldName(fn)+" passes "+k+" to a non-atomic call ("+v.posStr(r.Pos())+")")
							}
						default:
							bad = append(bad, oldName(fn)+" accesses "+k+" without sync/atomic ("+v.posStr(fa.Pos())+")")
						}
					}
				}
			}
		}
		sort.Strings(bad)
		var af []string
		for k := range atomicFields {
			af = append(af, k)
		}
		sort.Strings(af)
		mk(len(bad) == 0, fmt.Sprintf("fields accessed through sync/atomic (%v) are accessed only through sync/atomic; offending: %v", af, bad))
	case "resolver-encapsulation":
		// Object-invariant methodology for InOrderPathResolver (A-OBJ-INV):
		// its invariant is established by NewPathResolver and preserved by
		// every method (proved); it holds at every method entry because no
		// other function writes the state it speaks about. Checked here: the
		// fields Path.parent/relativePath/seekerCount and the soughtPaths map
		// are written only by methods of *InOrderPathResolver, and their
		// addresses are never taken for any other use than a load.
		protected := map[string]bool{"Path.parent": true, "Path.relativePath": true, "Path.seekerCount": true, "InOrderPathResolver.soughtPaths": true}
		allowed := func(fn *ssa.Function) bool {
			for f := fn; f != nil; f = f.Parent() {
				if r := f.Signature.Recv(); r != nil && strings.HasSuffix(r.Type().String(), "/sizes.InOrderPathResolver") {
					return true
				}
			}
			return oldName(fn) == mp+"/sizes.NewPathResolver"
		}
		var bad []string
		n := 0
		for _, fn := range v.moduleFuncs() {
			for _, b := range fn.Blocks {
				for _, in := range b.Instrs {
					switch in := in.(type) {
					case *ssa.FieldAddr:
						st, ok := in.X.Type().Underlying().(*types.Pointer).Elem().Underlying().(*types.Struct)
						nt, isN := in.X.Type().Underlying().(*types.Pointer).Elem().(*types.Named)
						if !ok || !isN || nt.Obj().Pkg() == nil || nt.Obj().Pkg().Path() != mp+"/sizes" {
							continue
						}
						if !protected[nt.Obj().Name()+"."+st.Field(in.Field).Name()] {
							continue
						}
						for _, ref := range *in.Referrers() {
							if u, isLoad := ref.(*ssa.UnOp); isLoad && u.Op == token.MUL {
								continue
							}
							if _, isDbg := ref.(*ssa.DebugRef); isDbg {
								continue
							}
							n++
							if !allowed(fn) {
								bad = append(bad, oldName(fn)+" writes or leaks "+nt.Obj().Name()+"."+st.Field(in.Field).Name()+" ("+v.posStr(in.Pos())+")")
							}
						}
					case *ssa.MapUpdate:
						if isSoughtMap(in.Map.Type(), mp) {
							n++
							if !allowed(fn) {
								bad = append(bad, oldName(fn)+" updates a soughtPaths-typed map ("+v.posStr(in.Pos())+")")
							}
						}
					case *ssa.Call:
						if bi, ok := in.Call.Value.(*ssa.Builtin); ok && bi.Name() == "delete" && len(in.Call.Args) > 0 && isSoughtMap(in.Call.Args[0].Type(), mp) {
							n++
							if !allowed(fn) {
								bad = append(bad, oldName(fn)+" deletes from a soughtPaths-typed map ("+v.posStr(in.Pos())+")")
							}
						}
					}
				}
			}
		}
		sort.Strings(bad)
		mk(len(bad) == 0 && n > 0, fmt.Sprintf("the %d writes to Path.parent/relativePath/seekerCount and to the soughtPaths map are all in methods of *InOrderPathResolver; offending: %v", n, bad))
	default:
		res.Unsupported = "unknown structural obligation " + name
	}
	return res
}

// snakeCase: "maxCheckoutBlobSize" -> "max_checkout_blob_size".
func snakeCase(s string) string {
	var b strings.Builder
	for i, r := range s {
		if unicode.IsUpper(r) {
			if i > 0 {
				b.WriteByte('_')
			}
			r = unicode.ToLower(r)
		}
		b.WriteRune(r)
	}
	return b.String()
}
