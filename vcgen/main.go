package main

import (
	"flag"
	"fmt"
	"os"
	"sort"
	"strings"
	"time"

	"golang.org/x/tools/go/ssa"
	"golang.org/x/tools/go/ssa/ssautil"
)

var devHooks = map[string]func(*Verifier, []string){}

func allFuncs(v *Verifier) map[*ssa.Function]bool { return ssautil.AllFunctions(v.prog) }

func main() {
	if len(os.Args) < 2 {
		fmt.Fprintln(os.Stderr, "usage: vcgen <dev|check|lock|selftest> ...")
		os.Exit(2)
	}
	switch os.Args[1] {
	case "dev":
		devMain(os.Args[2:])
	case "ssa":
		v, err := LoadVerifier("/repo", "/verif/deps")
		if err != nil {
			panic(err)
		}
		devHooks["ssa"](v, os.Args[2:])
	case "extcalls":
		// external static callees of module code and whether std.spec gives them a contract
		v, err := LoadVerifier("/repo", "/verif/deps")
		if err != nil {
			panic(err)
		}
		sites := v.callSites(func(n string) bool { return !strings.HasPrefix(strings.TrimLeft(n, "(*"), modulePath) })
		var names []string
		for n := range sites {
			names = append(names, n)
		}
		sort.Strings(names)
		for _, n := range names {
			has := "-"
			for _, fc := range v.cs.Funcs {
				if fc.Assumed && strings.HasSuffix(strings.NewReplacer("(", "", ")", "", "*", "").Replace(n), strings.NewReplacer("(", "", ")", "", "*", "").Replace(fc.Pkg+"."+fc.Name)) {
					has = "contract"
				}
			}
			fmt.Printf("%-9s %-60s %d sites\n", has, n, len(sites[n]))
		}
	case "uncovered":
		// module functions that have no contract, or a contract that no
		// property is bound to (a map of what a change could touch unseen)
		v, err := LoadVerifier("/repo", "/verif/deps")
		if err != nil {
			panic(err)
		}
		under := map[*ssa.Function]*FuncContract{}
		for _, fc := range v.cs.Funcs {
			if fc.Assumed {
				continue
			}
			if fn := v.findFunc(fc.Pkg, fc.Name); fn != nil {
				under[fn] = fc
			}
		}
		bound := map[string]bool{}
		for _, names := range v.cs.Props {
			for _, n := range names {
				bound[n] = true
			}
		}
		for _, fn := range v.moduleFuncs() {
			n := 0
			for _, b := range fn.Blocks {
				n += len(b.Instrs)
			}
			fc := under[fn]
			switch {
			case fc == nil:
				fmt.Printf("no-contract  %4d instrs  %s\n", n, fn.String())
			case !bound[fc.Pkg+"::"+fc.Name]:
				fmt.Printf("unbound      %4d instrs  %s\n", n, fn.String())
			default:
				clauses := len(fc.Ensures) + len(fc.CallAsserts)
				for _, ls := range fc.Loops {
					clauses += len(ls.Invariants) + len(ls.Steps)
				}
				if clauses == 0 {
					fmt.Printf("frame-only   %4d instrs  %s\n", n, fn.String())
				}
			}
		}
	case "check":
		os.Exit(checkMain(os.Args[2:]))
	default:
		fmt.Fprintln(os.Stderr, "unknown command", os.Args[1])
		os.Exit(2)
	}
}

// dev: verify the named functions (or all contracts) and print every obligation.
func devMain(args []string) {
	fs := flag.NewFlagSet("dev", flag.ExitOnError)
	repo := fs.String("repo", "/repo", "repository")
	deps := fs.String("deps", "/verif/deps", "dependency contracts")
	timeout := fs.Int("timeout", 20, "solver timeout (s)")
	dump := fs.String("dump", "", "directory for smt2 files")
	verbose := fs.Bool("v", false, "print failing scripts' raw output")
	fs.Parse(args)
	v, err := LoadVerifier(*repo, *deps)
	if err != nil {
		fmt.Fprintln(os.Stderr, err)
		os.Exit(2)
	}
	dir := *dump
	if dir == "" {
		dir, _ = os.MkdirTemp("", "vcgen")
		defer os.RemoveAll(dir)
	} else {
		os.MkdirAll(dir, 0o755)
	}
	var keys []string
	for _, k := range v.cs.Order {
		fc := v.cs.Funcs[k]
		if fc.Assumed || fc.Iface {
			continue
		}
		if len(fs.Args()) > 0 {
			ok := false
			for _, a := range fs.Args() {
				if strings.Contains(fc.Full(), a) {
					ok = true
				}
			}
			if !ok {
				continue
			}
		}
		keys = append(keys, k)
	}
	var results []*FuncResult
	for _, k := range keys {
		t0 := time.Now()
		results = append(results, v.VerifyFunc(v.cs.Funcs[k]))
		if os.Getenv("VCGEN_TRACE") != "" {
			fmt.Fprintf(os.Stderr, "gen %s %.2fs\n", k, time.Since(t0).Seconds())
		}
	}
	var lnames []string
	for n, lm := range v.cs.Lemmas {
		if lm.Axiom {
			continue
		}
		if len(fs.Args()) > 0 {
			ok := false
			for _, a := range fs.Args() {
				if strings.Contains("lemma/"+n, a) {
					ok = true
				}
			}
			if !ok {
				continue
			}
		}
		lnames = append(lnames, n)
	}
	sort.Strings(lnames)
	for _, n := range lnames {
		results = append(results, v.VerifyLemma(v.cs.Lemmas[n]))
	}
	var all []*Obligation
	for _, r := range results {
		all = append(all, r.Obls...)
	}
	t1 := time.Now()
	solveAll(all, dir, *timeout, false)
	if os.Getenv("VCGEN_TRACE") != "" {
		fmt.Fprintf(os.Stderr, "solve %.2fs\n", time.Since(t1).Seconds())
	}
	bad := 0
	for _, r := range results {
		if r.Unsupported != "" {
			fmt.Printf("UNSUPPORTED %s: %s\n", r.Name, r.Unsupported)
			bad++
		}
		for _, o := range r.Obls {
			ok := o.Status == "unsat"
			if o.Kind == "vacuity" {
				ok = o.Status == "sat"
			}
			mark := "ok  "
			if !ok {
				mark = "FAIL"
				bad++
			}
			fmt.Printf("%s %-8s %-7s %5.2fs %s  [%s] %s\n", mark, o.Status, o.Solver, o.Seconds, o.Name, o.Pos, o.Text)
			if !ok && *verbose {
				for k, val := range o.Model {
					if strings.Contains(k, "bvadd") {
						continue
					}
					fmt.Printf("       %s = %s\n", k, val)
				}
				if len(o.Model) == 0 {
					fmt.Printf("       raw: %.300s\n", o.Raw)
				}
			}
		}
	}
	fmt.Printf("%d obligations, %d problems\n", len(all), bad)
}

func init() {
	devHooks["ssa"] = func(v *Verifier, args []string) {
		for _, k := range v.cs.Order {
			_ = k
		}
		for _, a := range args {
			for _, p := range v.spkgs {
				for fn := range allFuncs(v) {
					if fn.Pkg == p && strings.Contains(fn.String(), a) {
						fn.WriteTo(os.Stdout)
					}
				}
			}
		}
	}
}
