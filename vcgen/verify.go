package main

// verify.go — loading /repo, name resolution, and the per-function /
// per-lemma generation of obligations.

import (
	"go/ast"
	"fmt"
	"go/constant"
	"go/token"
	"go/types"
	"os"
	"path/filepath"
	"sort"
	"strings"

	"golang.org/x/tools/go/packages"
	"golang.org/x/tools/go/ssa"
	"golang.org/x/tools/go/ssa/ssautil"
)

type Verifier struct {
	prog     *ssa.Program
	fset     *token.FileSet
	spkgs    map[string]*ssa.Package
	tpkgs    map[string]*types.Package
	byName   map[string]*types.Package
	cs       *Contracts
	closures map[Term]*ssa.MakeClosure
	srcCache map[string][]string
	repo     string
	storedGlobals map[*ssa.Global]bool
	loadSeconds float64
	lockSigs map[string]*FuncSig // signatures of locals on the reference tree (rename tolerance)
	sigs     map[string]*FuncSig // signatures seen in this run
}

func LoadVerifier(repo string, depsDir string) (*Verifier, error) {
	cfg := &packages.Config{Mode: packages.LoadAllSyntax, Dir: repo, BuildFlags: []string{"-tags=verif"},
		Env: append(os.Environ(), "GOFLAGS=-mod=mod", "GOPROXY=off", "GOSUMDB=off", "GOTOOLCHAIN=local")}
	pkgs, err := packages.Load(cfg, "./...")
	if err != nil {
		return nil, err
	}
	var errs []string
	packages.Visit(pkgs, nil, func(p *packages.Package) {
		for _, e := range p.Errors {
			errs = append(errs, e.Error())
		}
	})
	if len(errs) > 0 {
		return nil, fmt.Errorf("package errors:\n%s", strings.Join(errs, "\n"))
	}
	prog, _ := ssautil.AllPackages(pkgs, ssa.GlobalDebug)
	prog.Build()
	v := &Verifier{prog: prog, fset: prog.Fset, spkgs: map[string]*ssa.Package{}, tpkgs: map[string]*types.Package{},
		byName: map[string]*types.Package{}, closures: map[Term]*ssa.MakeClosure{}, srcCache: map[string][]string{}, repo: repo,
		storedGlobals: map[*ssa.Global]bool{}}
	for _, p := range prog.AllPackages() {
		v.spkgs[p.Pkg.Path()] = p
		v.tpkgs[p.Pkg.Path()] = p.Pkg
		if _, dup := v.byName[p.Pkg.Name()]; !dup || inModule(p.Pkg) {
			v.byName[p.Pkg.Name()] = p.Pkg
		}
	}
	// contract files
	files := map[string][2]string{}
	for _, p := range pkgs {
		if !strings.HasPrefix(p.PkgPath, modulePath) {
			continue
		}
		dir := repo
		if rel := strings.TrimPrefix(p.PkgPath, modulePath); rel != "" {
			dir = filepath.Join(repo, rel)
		}
		f := filepath.Join(dir, "zz_contracts_verif.go")
		if _, err := os.Stat(f); err == nil {
			files[f] = [2]string{p.PkgPath, p.Name}
		}
	}
	if depsDir != "" {
		ms, _ := filepath.Glob(filepath.Join(depsDir, "*.spec"))
		for _, m := range ms {
			files[m] = [2]string{"deps", "deps"}
		}
	}
	cs, err := LoadContracts(files)
	if err != nil {
		return nil, err
	}
	v.cs = cs
	// which globals are ever stored to (outside package initialisers)?
	for fn := range ssautil.AllFunctions(prog) {
		if fn.Pkg == nil || !inModule(fn.Pkg.Pkg) || fn.Name() == "init" {
			continue
		}
		for _, b := range fn.Blocks {
			for _, in := range b.Instrs {
				if st, ok := in.(*ssa.Store); ok {
					if g, ok := rootGlobal(st.Addr); ok {
						v.storedGlobals[g] = true
					}
				}
			}
		}
	}
	return v, nil
}

func rootGlobal(v ssa.Value) (*ssa.Global, bool) {
	for {
		switch x := v.(type) {
		case *ssa.Global:
			return x, true
		case *ssa.FieldAddr:
			v = x.X
		case *ssa.IndexAddr:
			v = x.X
		default:
			return nil, false
		}
	}
}

func (v *Verifier) pkgOf(path string) *types.Package {
	if p, ok := v.tpkgs[path]; ok {
		return p
	}
	return nil
}

func (v *Verifier) posStr(p token.Pos) string {
	if p == token.NoPos {
		return ""
	}
	ps := v.fset.Position(p)
	rel, err := filepath.Rel(v.repo, ps.Filename)
	if err != nil {
		rel = ps.Filename
	}
	return fmt.Sprintf("%s:%d", rel, ps.Line)
}

func (v *Verifier) srcLine(p token.Pos) string {
	if p == token.NoPos {
		return ""
	}
	ps := v.fset.Position(p)
	lines, ok := v.srcCache[ps.Filename]
	if !ok {
		data, _ := os.ReadFile(ps.Filename)
		lines = strings.Split(string(data), "\n")
		v.srcCache[ps.Filename] = lines
	}
	if ps.Line-1 < len(lines) {
		return strings.TrimSpace(lines[ps.Line-1])
	}
	return ""
}

func (v *Verifier) lookupType(pkg *types.Package, name string) types.Type {
	name = strings.TrimSpace(name)
	switch {
	case strings.HasPrefix(name, "*"):
		if t := v.lookupType(pkg, name[1:]); t != nil {
			return types.NewPointer(t)
		}
		return nil
	case strings.HasPrefix(name, "[]"):
		if t := v.lookupType(pkg, name[2:]); t != nil {
			return types.NewSlice(t)
		}
		return nil
	}
	if k := strings.LastIndex(name, "."); k >= 0 {
		pn, tn := name[:k], name[k+1:]
		if p, ok := v.tpkgs[pn]; ok {
			if o := p.Scope().Lookup(tn); o != nil {
				return o.Type()
			}
		}
		if p, ok := v.byName[pn]; ok {
			if o := p.Scope().Lookup(tn); o != nil {
				return o.Type()
			}
		}
		return nil
	}
	if pkg != nil {
		if o := pkg.Scope().Lookup(name); o != nil {
			if _, ok := o.(*types.TypeName); ok {
				return o.Type()
			}
		}
	}
	if o := types.Universe.Lookup(name); o != nil {
		if _, ok := o.(*types.TypeName); ok {
			return o.Type()
		}
	}
	return nil
}

func (v *Verifier) globalAddr(c *Ctx, g *ssa.Global) Term {
	n := "|glob " + g.Pkg.Pkg.Path() + "." + g.Name() + "|"
	if !c.funDecl[n] {
		c.funDecl[n] = true
		c.emit(fmt.Sprintf("(declare-const %s Int)", n))
		c.emit(fmt.Sprintf("(assert (and (> %s 0) (= (ftag %s) 0) (= (froot %s) %s) (not (isfresh %s))))", n, n, n, n, n))
		c.globals = append(c.globals, n)
		for _, o := range c.globals[:len(c.globals)-1] {
			c.emit(fmt.Sprintf("(assert (not (= %s %s)))", n, o))
		}
	}
	return n
}

func (v *Verifier) funcRef(c *Ctx, f *ssa.Function) Term {
	n := "|func " + f.String() + "|"
	if !c.funDecl[n] {
		c.funDecl[n] = true
		c.emit(fmt.Sprintf("(declare-const %s Int)", n))
		c.emit(fmt.Sprintf("(assert (> %s 0))", n))
	}
	return n
}

// globalVal resolves a package-level constant or variable by (qualified) name.
func (v *Verifier) globalVal(ev *Env, name string) (Val, bool) {
	pkg := ev.pkg
	if k := strings.Index(name, "."); k >= 0 {
		if p, ok := v.byName[name[:k]]; ok {
			pkg = p
			name = name[k+1:]
		} else {
			return Val{}, false
		}
	}
	if pkg == nil {
		return Val{}, false
	}
	obj := pkg.Scope().Lookup(name)
	if obj == nil {
		if sp := v.spkgs[pkg.Path()]; sp != nil {
			if g, ok := sp.Members[name].(*ssa.Global); ok {
				addr := v.globalAddr(ev.c, g)
				et := g.Type().Underlying().(*types.Pointer).Elem()
				return ev.c.load(ev.mem, addr, et), true
			}
		}
	}
	switch o := obj.(type) {
	case *types.Const:
		t := o.Type()
		if b, ok := t.Underlying().(*types.Basic); ok {
			switch {
			case b.Info()&types.IsString != 0:
				return ev.c.strConst(constant.StringVal(o.Val())), true
			case b.Info()&types.IsInteger != 0:
				return Val{K: KLit, T: constant.ToInt(o.Val()).ExactString()}, true
			case b.Info()&types.IsBoolean != 0:
				return boolVal(fmt.Sprint(constant.BoolVal(o.Val()))), true
			}
		}
	case *types.Var:
		sp := v.spkgs[pkg.Path()]
		if sp == nil {
			return Val{}, false
		}
		if g, ok := sp.Members[name].(*ssa.Global); ok {
			addr := v.globalAddr(ev.c, g)
			et := g.Type().Underlying().(*types.Pointer).Elem()
			return ev.c.load(ev.mem, addr, et), true
		}
	}
	return Val{}, false
}

// ---------------------------------------------------------------- functions

func (v *Verifier) findFunc(pkgPath, rel string) *ssa.Function {
	if fn := v.findFuncExact(pkgPath, rel); fn != nil {
		return fn
	}
	// the function may have been renamed since the reference tree
	base, anon := rel, ""
	if k := strings.Index(rel, "$"); k >= 0 && !strings.HasPrefix(rel, "init$") {
		base, anon = rel[:k], rel[k:]
	}
	for fn, oldRel := range renamedFrom {
		if fn.Pkg != nil && fn.Pkg.Pkg.Path() == pkgPath && oldRel == base {
			return v.findFuncExact(pkgPath, fn.RelString(fn.Pkg.Pkg)+anon)
		}
	}
	return nil
}

// renamedFrom: functions of the module that carry a contract under another
// name on the reference tree (value: that name, relative to the package).
// Filled by detectRenames from the function table in obligations.lock.
var renamedFrom = map[*ssa.Function]string{}

// oldName: the name a function had on the reference tree (its current name if
// it was not renamed). Call patterns in contracts, ghost counters and the
// structural scans match against this name.
func oldName(fn *ssa.Function) string {
	if old, ok := renamedFrom[fn]; ok && fn.Pkg != nil {
		if strings.HasPrefix(old, "(") {
			// (*T).M -> (*pkgpath.T).M
			star := ""
			rest := old[1:]
			if strings.HasPrefix(rest, "*") {
				star, rest = "*", rest[1:]
			}
			return "(" + star + fn.Pkg.Pkg.Path() + "." + rest
		}
		return fn.Pkg.Pkg.Path() + "." + old
	}
	if fn.Parent() != nil {
		if _, ok := renamedFrom[outermost(fn)]; ok {
			o := outermost(fn)
			return oldName(o) + strings.TrimPrefix(fn.String(), o.String())
		}
	}
	return fn.String()
}

func outermost(fn *ssa.Function) *ssa.Function {
	for fn.Parent() != nil {
		fn = fn.Parent()
	}
	return fn
}

func typeSig(fn *ssa.Function) string {
	sg := fn.Signature
	var b strings.Builder
	if sg.Recv() != nil {
		b.WriteString("[" + types.TypeString(sg.Recv().Type(), nil) + "]")
	}
	b.WriteString("(")
	for i := 0; i < sg.Params().Len(); i++ {
		b.WriteString(types.TypeString(sg.Params().At(i).Type(), nil) + ",")
	}
	b.WriteString(")(")
	for i := 0; i < sg.Results().Len(); i++ {
		b.WriteString(types.TypeString(sg.Results().At(i).Type(), nil) + ",")
	}
	b.WriteString(")")
	return b.String()
}

// moduleFuncTable: every named function and method of the module with its
// receiver and parameter / result types (no names): "pkgpath::rel" -> types.
func (v *Verifier) moduleFuncTable() map[string]string {
	out := map[string]string{}
	for _, fn := range v.moduleFuncs() {
		if fn.Parent() != nil || fn.Pkg == nil || fn.Synthetic != "" {
			continue
		}
		out[fn.Pkg.Pkg.Path()+"::"+fn.RelString(fn.Pkg.Pkg)] = typeSig(fn)
	}
	return out
}

// detectRenames: a function that carries a contract on the reference tree and
// is missing now, while exactly one function that did not exist then has the
// same package, receiver, parameter and result types, has been renamed.
func (v *Verifier) detectRenames(ref map[string]string) {
	renamedFrom = map[*ssa.Function]string{}
	if len(ref) == 0 {
		return
	}
	cur := v.moduleFuncTable()
	var missing, added []string
	for k := range ref {
		if _, ok := cur[k]; !ok {
			missing = append(missing, k)
		}
	}
	for k := range cur {
		if _, ok := ref[k]; !ok {
			added = append(added, k)
		}
	}
	sort.Strings(missing)
	sort.Strings(added)
	for _, m := range missing {
		mp := m[:strings.Index(m, "::")]
		var cands []string
		for _, a := range added {
			if strings.HasPrefix(a, mp+"::") && cur[a] == ref[m] {
				cands = append(cands, a)
			}
		}
		if len(cands) != 1 {
			continue
		}
		// the candidate must not be the unique match of another missing name
		n := 0
		for _, m2 := range missing {
			if strings.HasPrefix(cands[0], m2[:strings.Index(m2, "::")]+"::") && ref[m2] == cur[cands[0]] {
				n++
			}
		}
		if n != 1 {
			continue
		}
		if _, has := v.cs.Funcs[cands[0]]; has {
			continue // the new name has a contract of its own
		}
		a := cands[0]
		if fn := v.findFuncExact(mp, a[strings.Index(a, "::")+2:]); fn != nil {
			renamedFrom[fn] = m[strings.Index(m, "::")+2:]
		}
	}
}

func (v *Verifier) findFuncExact(pkgPath, rel string) *ssa.Function {
	sp := v.spkgs[pkgPath]
	if sp == nil {
		return nil
	}
	// closures: Parent$1$2
	base := rel
	var anon []string
	if k := strings.Index(rel, "$"); k >= 0 && !strings.HasPrefix(rel, "init$") {
		base = rel[:k]
		anon = strings.Split(rel[k+1:], "$")
	}
	var fn *ssa.Function
	if strings.HasPrefix(base, "(") {
		// (T).M or (*T).M
		close := strings.Index(base, ").")
		if close < 0 {
			return nil
		}
		tn, mn := base[1:close], base[close+2:]
		ptr := strings.HasPrefix(tn, "*")
		tn = strings.TrimPrefix(tn, "*")
		obj := sp.Pkg.Scope().Lookup(tn)
		if obj == nil {
			return nil
		}
		var recv types.Type = obj.Type()
		if ptr {
			recv = types.NewPointer(recv)
		}
		sel := v.prog.MethodSets.MethodSet(recv).Lookup(sp.Pkg, mn)
		if sel == nil {
			return nil
		}
		fn = v.prog.MethodValue(sel)
		// a value-receiver method looked up through the pointer type is a wrapper
		if fn != nil && fn.Synthetic != "" {
			if f2 := v.prog.FuncValue(sel.Obj().(*types.Func)); f2 != nil {
				fn = f2
			}
		}
	} else {
		fn = sp.Func(base)
	}
	for _, a := range anon {
		if fn == nil {
			return nil
		}
		var idx int
		fmt.Sscan(a, &idx)
		if idx < 1 || idx > len(fn.AnonFuncs) {
			return nil
		}
		fn = fn.AnonFuncs[idx-1]
	}
	return fn
}

type FuncResult struct {
	Name        string
	Obls        []*Obligation
	Unsupported string
	Ctx         *Ctx
	Contract    *FuncContract
	Plan        *ReplayPlan
	EntryEnv    *Env
	AllTerms    []NamedTerm
	PostEnv     *Env // entry values + call names + locals: for known-finding regions
	Gone        bool // the contract's function does not exist (any more)
}

func (v *Verifier) wfAssume(c *Ctx, val Val) Term {
	var ts []Term
	var walk func(x Val)
	walk = func(x Val) {
		switch x.K {
		case KSlice:
			lim := bvLit(64, 1<<48)
			ts = append(ts, app("bvsle", bvLit(64, 0), x.Len), app("bvslt", x.Len, lim),
				app("bvsle", bvLit(64, 0), x.Off), app("bvslt", x.Off, lim))
		case KStruct, KTuple:
			for _, f := range x.Fields {
				walk(f)
			}
		}
	}
	walk(val)
	return and(ts...)
}

// FuncSig records the source-level names a function's contract can refer to,
// as they were on the reference tree: parameters and results by position,
// locals with their types. A later run in which exactly one local (of a
// given type) has disappeared and exactly one new local of that type has
// appeared treats the new name as the old one: renaming a local or a
// parameter does not touch any obligation.
type FuncSig struct {
	Params  []string          `json:"params"`
	Results []string          `json:"results"`
	Locals  map[string]string `json:"locals"`
}

func funcSigOf(fn *ssa.Function) *FuncSig {
	sg := &FuncSig{Locals: map[string]string{}}
	for _, p := range fn.Params {
		sg.Params = append(sg.Params, p.Name())
	}
	for _, fv := range fn.FreeVars {
		sg.Params = append(sg.Params, fv.Name())
	}
	rs := fn.Signature.Results()
	for i := 0; i < rs.Len(); i++ {
		sg.Results = append(sg.Results, rs.At(i).Name())
	}
	isParam := map[string]bool{}
	for _, n := range sg.Params {
		isParam[n] = true
	}
	add := func(name string, t types.Type) {
		if name == "" || name == "_" || isParam[name] || name == "complit" || name == "varargs" || strings.ContainsAny(name, " .") {
			return
		}
		ts := types.TypeString(t, nil)
		if old, ok := sg.Locals[name]; ok && old != ts {
			if !strings.Contains(old, ts) {
				sg.Locals[name] = old + " | " + ts
			}
			return
		}
		sg.Locals[name] = ts
	}
	for _, b := range fn.Blocks {
		for _, in := range b.Instrs {
			switch in := in.(type) {
			case *ssa.DebugRef:
				if id, ok := in.Expr.(*ast.Ident); ok {
					t := in.X.Type()
					if in.IsAddr {
						t = derefType(t)
					}
					add(id.Name, t)
				}
			case *ssa.Alloc:
				add(in.Comment, derefType(in.Type()))
			case *ssa.Phi:
				add(in.Comment, in.Type())
			}
		}
	}
	return sg
}

// renameAliases: old name -> current name, for parameters/results by position
// and for locals by unique type match among the names that disappeared/appeared.
func renameAliases(old, cur *FuncSig) map[string]string {
	al := map[string]string{}
	if old == nil {
		return al
	}
	if len(old.Params) == len(cur.Params) {
		for i := range old.Params {
			if old.Params[i] != cur.Params[i] && old.Params[i] != "" && cur.Params[i] != "" {
				al[old.Params[i]] = cur.Params[i]
			}
		}
	}
	if len(old.Results) == len(cur.Results) {
		for i := range old.Results {
			if old.Results[i] != cur.Results[i] && old.Results[i] != "" && cur.Results[i] != "" {
				al[old.Results[i]] = cur.Results[i]
			}
		}
	}
	var missing, added []string
	for n := range old.Locals {
		if _, ok := cur.Locals[n]; !ok {
			missing = append(missing, n)
		}
	}
	for n := range cur.Locals {
		if _, ok := old.Locals[n]; !ok {
			added = append(added, n)
		}
	}
	sort.Strings(missing)
	sort.Strings(added)
	for _, m := range missing {
		var cands []string
		for _, a := range added {
			if cur.Locals[a] == old.Locals[m] {
				cands = append(cands, a)
			}
		}
		if len(cands) != 1 {
			continue
		}
		// the candidate must not be the unique match of another missing name
		n := 0
		for _, m2 := range missing {
			if old.Locals[m2] == cur.Locals[cands[0]] {
				n++
			}
		}
		if n == 1 {
			al[m] = cands[0]
		}
	}
	return al
}

func (v *Verifier) VerifyFunc(fc *FuncContract) (res *FuncResult) {
	res = &FuncResult{Name: fc.Full(), Contract: fc}
	fn := v.findFunc(fc.Pkg, fc.Name)
	if fn == nil {
		res.Unsupported = "function not found in /repo: " + fc.Pkg + "::" + fc.Name
		// on the reference tree (write-lock) a contract without a function is a
		// mistake in the contract file; later it is a deleted function
		res.Gone = lockStructs != nil
		return
	}
	c := NewCtx()
	c.specs = v.cs.Specs
	res.Ctx = c
	{
		sg := funcSigOf(fn)
		if v.sigs == nil {
			v.sigs = map[string]*FuncSig{}
		}
		v.sigs[fc.Full()] = sg
		if old, ok := renamedFrom[outermost(fn)]; ok {
			c.dropped[fmt.Sprintf("renamed since the reference tree: function `%s` is now `%s` (its contract and the call patterns that name it follow the rename)", old, outermost(fn).RelString(outermost(fn).Pkg.Pkg))] = true
		}
		c.alias = renameAliases(v.lockSigs[fc.Full()], sg)
		for o, n := range c.alias {
			c.dropped[fmt.Sprintf("renamed since the reference tree: `%s` is now `%s` in %s (contract clauses follow the rename)", o, n, fc.Full())] = true
		}
	}
	var obls []*Obligation
	var allocs []Term
	ex := &Exec{v: v, c: c, fn: fn, fc: fc, fname: fc.Full(), vals: map[ssa.Value]Val{}, obls: &obls,
		count: map[string]int{}, allocs: &allocs, decAtHeader: map[*ssa.BasicBlock]Val{}, headerEnv: map[*ssa.BasicBlock]*Env{}, autoRange: map[*ssa.BasicBlock]*rangeInv{}, debugBound: map[*Env]map[string]bool{}, paramNames: map[string]bool{}, closureVals: map[Term]*ssa.MakeClosure{},
		stack: []string{fn.String()}, named: map[string]Val{}, callSeen: map[string]bool{}, assertSeen: map[string]bool{}}
	ex.top = ex
	ex.nilcheck = fc.Options["nilcheck"] != ""
	ex.sweep = fc.Pkg != modulePath+"/counts" || fc.Options["sweep"] != ""
	defer func() {
		res.Obls = obls
		if r := recover(); r != nil {
			if u, ok := r.(unsupported); ok {
				res.Unsupported = u.msg
				return
			}
			if e, ok := r.(evalErr); ok {
				res.Unsupported = "contract error: " + e.msg
				return
			}
			panic(r)
		}
	}()
	v.emitAxioms(c, fc.Pkg)
	mem := NewMem()
	ex.ghostKeys = map[string]string{}
	for _, g := range fc.Ghosts {
		k := ghostKey(g.Name)
		ex.ghostKeys[g.Name] = k
		mem.m[k] = "((as const (Array Int (_ BitVec 64))) #x0000000000000000)"
	}
	env := &Env{c: c, v: v, vars: map[string]Val{}, mem: mem, pkg: fn.Pkg.Pkg, ghosts: ex.ghostKeys}
	plan := &ReplayPlan{Fn: fn, PkgPath: fc.Pkg}
	res.Plan = plan
	res.EntryEnv = env
	addInput := func(name string, val Val) {
		if val.Typ == nil {
			return
		}
		sorts := c.leafSorts(val.Typ)
		for i, l := range leaves(val) {
			ex.inputs = append(ex.inputs, NamedTerm{Name: fmt.Sprintf("%s#%d", name, i), T: l, Sort: sorts[i]})
		}
	}
	bind := func(name string, t types.Type, sv ssa.Value) {
		ex.paramNames[name] = true
		pv := c.freshVal(t, "p_"+name)
		pv.Typ = t
		ex.vals[sv] = pv
		env.vars[name] = pv
		c.assume(v.wfAssume(c, pv))
		addInput(name, pv)
		pi := ParamInfo{Name: name, Type: t, Val: pv}
		defer func() { plan.Params = append(plan.Params, pi) }()
		if pv.K == KRef {
			ex.known = append(ex.known, pv.T)
			if pt, ok := t.Underlying().(*types.Pointer); ok {
				if _, isS := pt.Elem().Underlying().(*types.Struct); isS || true {
					func() {
						defer func() { recover() }()
						pointee := c.load(mem, pv.T, pt.Elem())
						c.assume(v.wfAssume(c, pointee))
						addInput("*"+name, pointee)
						pi.Pointee = &pointee
					}()
				}
			}
		}
	}
	for _, p := range fn.Params {
		bind(p.Name(), p.Type(), p)
	}
	for _, fv := range fn.FreeVars {
		bind(fv.Name(), fv.Type(), fv)
	}
	ex.entryEnv = env
	ex.entryMem = mem
	for _, l := range fc.Lets {
		lv, err := env.Value(l.E)
		if err != nil {
			unsup("let %s: %v", l.Name, err)
		}
		env.vars[l.Name] = lv
	}
	v.subtypePre(ex, fn, env)
	var reqs []Term
	for _, rq := range fc.Requires {
		t, err := env.Bool(rq.E)
		if err != nil {
			unsup("requires: %v", err)
		}
		c.assume(t)
		reqs = append(reqs, t)
	}
	// vacuity: the precondition must be satisfiable (expected answer: sat)
	vo := ex.addObl("vacuity", "", "true", "false", fn.Pos(), "precondition is satisfiable (expected: sat)", false)
	vo.Kind = "vacuity"

	outReach, results, outMem := ex.run("true", mem)
	for i := 0; i < len(ex.deferred); i++ {
		ex.deferred[i]()
	}

	post := &Env{c: c, v: v, vars: map[string]Val{}, mem: outMem, old: env, pkg: fn.Pkg.Pkg, ghosts: ex.ghostKeys}
	for k, val := range env.vars {
		post.vars[k] = val
	}
	sig := fn.Signature
	for i, rv := range results {
		post.vars[fmt.Sprintf("result%d", i)] = rv
		if n := sig.Results().At(i).Name(); n != "" && n != "_" {
			post.vars[n] = rv
		}
	}
	if len(results) == 1 {
		post.vars["result"] = results[0]
	}
	for k, nv := range ex.named {
		post.vars[k] = nv
	}
	defer func() {}()
	// named local variables that live in memory (go/ssa Allocs) can be
	// mentioned in ensures clauses; they denote the final content.
	for _, b := range fn.Blocks {
		for _, in := range b.Instrs {
			if al, ok := in.(*ssa.Alloc); ok && al.Comment != "" && al.Comment != "complit" && al.Comment != "varargs" {
				if av, ok := ex.vals[al]; ok {
					if _, clash := post.vars[al.Comment]; !clash {
						post.vars[al.Comment] = av
					}
				}
			}
			if ph, ok := in.(*ssa.Phi); ok && ph.Comment != "" {
				if pv, ok := ex.vals[ph]; ok {
					if _, clash := post.vars[ph.Comment]; !clash {
						post.vars[ph.Comment] = pv
					}
				}
			}
		}
	}
	ex.bindDebugNames(post, nil)
	res.PostEnv = post
	// `option sink:<param> <callees…>`: the parameter (an output stream) is
	// used only as the first argument of the listed writers, here and in the
	// closures that capture it; it is not stored, converted, compared or
	// handed to anything else that could write to it later.
	var sinkKeys []string
	for k := range fc.Options {
		if strings.HasPrefix(k, "sink:") {
			sinkKeys = append(sinkKeys, k)
		}
	}
	sort.Strings(sinkKeys)
	for _, k := range sinkKeys {
		pname := strings.TrimPrefix(k, "sink:")
		bad, n := sinkEscapes(fn, pname, strings.Fields(fc.Options[k]))
		goal := "true"
		if len(bad) > 0 || n == 0 {
			goal = "false"
		}
		so := ex.addObl("sink", pname, "true", goal, fn.Pos(), fmt.Sprintf("`%s` is only ever the destination of %s (%d uses); other uses: %v", pname, fc.Options[k], n, bad), false)
		if goal == "false" {
			// decided on the SSA form: nothing for a solver to do
			so.Status, so.Solver, so.Raw = "sat", "ssa-scan", so.Text
		}
	}
	for ci, ca := range fc.CallAsserts {
		if !ex.assertSeen[fmt.Sprintf("%d %s", ca.Ordinal, ca.Callee)] && !ca.Assume {
			// the call site the assertion is attached to does not exist
			lbl := ca.C.Label
			if lbl == "" {
				lbl = fmt.Sprintf("c%d", ci)
			}
			ex.addObl("assert", lbl, "true", "false", fn.Pos(), ca.C.Text+"  [call "+fmt.Sprint(ca.Ordinal)+" of "+ca.Callee+" not found]", false)
		}
	}
	for i, rv := range results {
		plan.Outs = append(plan.Outs, OutInfo{Name: fmt.Sprintf("result%d", i), GoExpr: fmt.Sprintf("r%d", i), Type: rv.Typ, Val: rv})
	}
	// modified cells are outputs too
	if fc.HasMod {
		for _, m := range fc.Modifies {
			if m == "everything" || strings.HasPrefix(m, "typemem(") || strings.HasPrefix(m, "map(") || strings.HasPrefix(m, "mapsof(") || strings.HasPrefix(m, "fieldmem(") {
				continue
			}
			func() {
				defer func() { recover() }()
				txt := strings.TrimSuffix(m, ".*")
				e, err := ParseExpr(txt)
				if err != nil {
					return
				}
				var pv Val
				goexpr := txt
				if strings.HasSuffix(m, ".*") {
					pv, err = env.Value(e)
					if err != nil || pv.K != KRef {
						return
					}
					goexpr = "(*" + txt + ")"
				} else {
					pv = env.addrOf(e)
					if e.Op == "un" {
						goexpr = "(" + txt + ")"
					}
				}
				et := derefType(pv.Typ)
				plan.Outs = append(plan.Outs, OutInfo{Name: "mod:" + m, GoExpr: goexpr, Type: et, Val: c.load(outMem, pv.T, et)})
			}()
		}
	}
	// Each ensures clause is evaluated per return site (in that site's own
	// state, not in the ite-merged exit state): the goals stay small.
	for _, en := range fc.Ensures {
		var parts []Term
		for _, rt := range ex.rets {
			penv := post.child()
			penv.mem = rt.mem
			for i, rv := range rt.vals {
				rv.Typ = sig.Results().At(i).Type()
				penv.vars[fmt.Sprintf("result%d", i)] = rv
				if n := sig.Results().At(i).Name(); n != "" && n != "_" {
					penv.vars[n] = rv
				}
				if len(rt.vals) == 1 {
					penv.vars["result"] = rv
				}
			}
			t, err := penv.Goal(en.E)
			if err != nil {
				if !staleRef(err) {
					unsup("ensures: %v", err)
				}
				// the clause names a call or local that no longer exists
				t = "false"
			}
			parts = append(parts, imp(rt.reach, t))
		}
		o := ex.addObl("post", en.Label, outReach, and(parts...), fn.Pos(), en.Text, false)
		if len(parts) > 1 {
			o.Parts = parts
		}
	}
	allTerms := plan.terms(c)
	res.AllTerms = allTerms
	var inTerms []NamedTerm
	for _, nt := range allTerms {
		if strings.HasPrefix(nt.Name, "in:") {
			inTerms = append(inTerms, nt)
		}
	}
	defer func() {
		for _, o := range obls {
			if o.Kind == "post" {
				o.Inputs = allTerms
			} else {
				o.Inputs = inTerms
			}
		}
	}()
	if fc.HasMod {
		ex.frameCheck(env, mem, outMem, outReach)
	}
	v.subtypeObligations(ex, fn, env, post, outReach, results)
	return
}

// subtypeObligations: when fn is a method of a type that implements an
// interface with a contract for that method, the interface contract must
// follow (behavioural subtyping); self is the boxed receiver.
func (v *Verifier) subtypeObligations(ex *Exec, fn *ssa.Function, pre, post *Env, reach Term, results []Val) {
	if tag := ex.fc.Options["no-subtype"]; tag != "" {
		ex.c.trusted[tag+": the interface-level meaning of "+ex.fname+" is not derived from its contract (heap-dependent implementation)"] = true
		return
	}
	v.forIfaceContracts(ex, fn, pre, post, results, func(ifc *FuncContract, penv, qenv *Env) {
		msig := fn.Signature
		for _, en := range ifc.Ensures {
			// per return site, like the function's own postconditions
			var parts []Term
			for _, rt := range ex.rets {
				renv := qenv.child()
				renv.mem = rt.mem
				for i, rv := range rt.vals {
					rv.Typ = msig.Results().At(i).Type()
					renv.vars[fmt.Sprintf("result%d", i)] = rv
					if n := msig.Results().At(i).Name(); n != "" && n != "_" {
						renv.vars[n] = rv
					}
					if len(rt.vals) == 1 {
						renv.vars["result"] = rv
					}
				}
				t, err := renv.Goal(en.E)
				if err != nil {
					unsup("interface contract %s: %v", ifc.Full(), err)
				}
				parts = append(parts, imp(rt.reach, t))
			}
			o := ex.addObl("subtype:"+ifc.Full(), en.Label, reach, and(parts...), fn.Pos(), en.Text, false)
			if len(parts) > 1 {
				o.Parts = parts
			}
		}
		// the frame of the interface contract is what callers havoc: the
		// implementation must stay inside it
		if ifc.HasMod {
			ex.frameCheckWith(penv, ex.entryMem, qenv.mem, reach, ifc.Modifies, "subtype-frame:"+ifc.Full(), ifc.Full())
		}
	})
}

// subtypePre: the interface contract's precondition is all a caller
// establishes; each precondition of the implementation must follow from it.
func (v *Verifier) subtypePre(ex *Exec, fn *ssa.Function, env *Env) {
	if len(ex.fc.Requires) == 0 || ex.fc.Options["no-subtype"] != "" {
		return
	}
	v.forIfaceContracts(ex, fn, env, nil, nil, func(ifc *FuncContract, penv, _ *Env) {
		if tag := ex.fc.Options["assume-pre"]; tag != "" {
			ex.c.trusted[tag+": precondition of "+ex.fname+" is assumed where it is called through "+ifc.Full()] = true
			return
		}
		var guard []Term
		for _, rq := range ifc.Requires {
			t, err := penv.Bool(rq.E)
			if err != nil {
				unsup("interface contract %s requires: %v", ifc.Full(), err)
			}
			guard = append(guard, t)
		}
		for _, rq := range ex.fc.Requires {
			if strings.HasPrefix(rq.Label, "assume:") {
				ex.c.trusted[strings.TrimPrefix(rq.Label, "assume:")+": precondition of "+ex.fname+" is assumed where it is called through "+ifc.Full()+": "+rq.Text] = true
				continue
			}
			t, err := env.Goal(rq.E)
			if err != nil {
				unsup("requires: %v", err)
			}
			ex.addObl("subtype-pre:"+ifc.Full(), rq.Label, and(guard...), t, fn.Pos(), rq.Text, false)
		}
	})
}

// forIfaceContracts calls f for every interface contract that the method fn
// implements, with environments in which the interface method's parameter
// names and `self` (the boxed receiver) are bound. post may be nil.
func (v *Verifier) forIfaceContracts(ex *Exec, fn *ssa.Function, pre, post *Env, results []Val, f func(ifc *FuncContract, penv, qenv *Env)) {
	sig := fn.Signature
	if sig.Recv() == nil || len(fn.Params) == 0 {
		return
	}
	recvT := sig.Recv().Type()
	var keys []string
	for k, fc := range v.cs.Funcs {
		if fc.Iface {
			keys = append(keys, k)
		}
	}
	sort.Strings(keys)
	for _, k := range keys {
		ifc := v.cs.Funcs[k]
		dot := strings.LastIndex(ifc.Name, ".")
		if dot < 0 || ifc.Name[dot+1:] != fn.Name() {
			continue
		}
		it := v.lookupType(v.pkgOf(ifc.Pkg), ifc.Name[:dot])
		if it == nil {
			continue
		}
		iface, ok := it.Underlying().(*types.Interface)
		if !ok || !types.Implements(recvT, iface) {
			continue
		}
		// bind the interface method's parameter names to this method's arguments
		var msig *types.Signature
		for i := 0; i < iface.NumMethods(); i++ {
			if iface.Method(i).Name() == fn.Name() {
				msig = iface.Method(i).Type().(*types.Signature)
			}
		}
		if msig == nil {
			continue
		}
		self := ex.c.box(ex.vals[fn.Params[0]], recvT)
		self.Typ = it
		penv := pre.child()
		var qenv *Env
		if post != nil {
			qenv = post.child()
			qenv.old = penv
			qenv.vars["self"] = self
		}
		penv.vars["self"] = self
		for i := 0; i < msig.Params().Len() && i+1 < len(fn.Params); i++ {
			a := ex.vals[fn.Params[i+1]]
			if n := msig.Params().At(i).Name(); n != "" && n != "_" {
				penv.vars[n] = a
				if qenv != nil {
					qenv.vars[n] = a
				}
			}
			penv.vars[fmt.Sprintf("arg%d", i)] = a
			if qenv != nil {
				qenv.vars[fmt.Sprintf("arg%d", i)] = a
			}
		}
		if qenv != nil {
			for i, rv := range results {
				if n := msig.Results().At(i).Name(); n != "" && n != "_" {
					qenv.vars[n] = rv
				}
			}
		}
		f(ifc, penv, qenv)
	}
}

// frameCheck: every memory array that differs between entry and exit differs
// only at the cells listed in `modifies` or inside freshly allocated objects.
func (ex *Exec) frameCheck(env *Env, in, out *MemState, reach Term) {
	ex.frameCheckWith(env, in, out, reach, ex.fc.Modifies, "frame", ex.fc.Full())
}

func (ex *Exec) frameCheckWith(env *Env, in, out *MemState, reach Term, modifies []string, kind, who string) {
	c := ex.c
	everything := false
	wholeTypes := map[string]bool{}
	wholeMaps := map[string]bool{}
	var regs []string
	var listed []cell
	mapRefs := map[string][]Term{}
	for _, m := range modifies {
		switch {
		case m == "everything":
			everything = true
		case strings.HasPrefix(m, "typemem("):
			t := ex.v.lookupType(env.pkg, strings.TrimSuffix(strings.TrimPrefix(m, "typemem("), ")"))
			if t == nil {
				unsup("unknown type in %s", m)
			}
			for _, cl := range c.cells("0", t) {
				wholeTypes[typeKey(cl.t)] = true
			}
		case strings.HasPrefix(m, "fieldmem("):
			regs = append(regs, m)
		case strings.HasPrefix(m, "mapsof("):
			t := ex.v.lookupType(env.pkg, strings.TrimSuffix(strings.TrimPrefix(m, "mapsof("), ")"))
			if t == nil {
				unsup("unknown type in %s", m)
			}
			for _, mt := range mapsOf(t, map[string]bool{}) {
				wholeMaps[typeKey(mt)] = true
			}
		case strings.HasPrefix(m, "map("):
			e, err := ParseExpr(strings.TrimSuffix(strings.TrimPrefix(m, "map("), ")"))
			if err != nil {
				unsup("%v", err)
			}
			mv, err := env.Value(e)
			if err != nil {
				unsup("modifies %s: %v", m, err)
			}
			mapRefs[typeKey(mv.Typ.Underlying())] = append(mapRefs[typeKey(mv.Typ.Underlying())], mv.T)
		default:
			listed = append(listed, ex.lvalueCells(env, m, who)...)
		}
	}
	if everything {
		return
	}
	regions := ex.regionsOf(env.pkg, regs)
	if out.epoch != in.epoch {
		ex.addObl(kind, "epoch", reach, "false", ex.fn.Pos(), "the function (or a callee without contract) may modify everything, but its contract has a finite modifies clause", false)
		return
	}
	var ks []string
	for k := range out.m {
		ks = append(ks, k)
	}
	sort.Strings(ks)
	for _, k := range ks {
		before := c.memRaw(in, k)
		after := out.m[k]
		if before == after || strings.HasPrefix(k, "Mghost ") {
			continue
		}
		t := memTypes[k]
		a := c.declConst(c.fresh("frame_a"), SRef)
		var allowed []Term
		if mt, ok := t.(*types.Map); ok {
			if wholeMaps[typeKey(mt)] {
				continue
			}
			for _, r := range mapRefs[typeKey(mt)] {
				allowed = append(allowed, eq(a, r))
			}
		} else {
			if wholeTypes[typeKey(t)] {
				continue
			}
			for _, cl := range listed {
				if typeKey(cl.t) == typeKey(t) {
					allowed = append(allowed, eq(a, cl.addr))
				}
			}
			for _, id := range regions[k] {
				allowed = append(allowed, eq(app("ftag", a), fmt.Sprint(id)))
			}
		}
		// cells of objects allocated by this function are invisible to the caller
		allowed = append(allowed, app("isfresh", app("froot", a)))
		goal := or(append(allowed, eq(app("select", after, a), app("select", before, a)))...)
		ex.addObl(kind, sanitize(strings.TrimPrefix(k, "M ")), reach, goal, ex.fn.Pos(), "only the cells in `modifies` of "+who+" change in "+k, false)
	}
}

func (v *Verifier) emitAxioms(c *Ctx, pkgPath string) {
	var names []string
	for n, lm := range v.cs.Lemmas {
		if lm.Axiom {
			names = append(names, n)
		}
	}
	sort.Strings(names)
	for _, n := range names {
		lm := v.cs.Lemmas[n]
		env := &Env{c: c, v: v, vars: map[string]Val{}, mem: NewMem(), pkg: v.pkgOf(lm.Pkg)}
		t, err := env.Bool(lm.E)
		if err != nil {
			unsup("axiom %s: %v", n, err)
		}
		c.flush()
		c.assume(t)
		c.axiomLine[len(c.lines)-1] = true
		tr := "axiom " + n
		if lm.Trust != "" {
			tr = lm.Trust + ": " + tr
		}
		if lm.Trust != "definition" {
			c.trusted[tr] = true
		}
	}
}

// VerifyLemma turns a lemma into one obligation (top-level forall binders are
// skolemised so that failing lemmas yield models).
func (v *Verifier) VerifyLemma(lm *Lemma) (res *FuncResult) {
	res = &FuncResult{Name: "lemma/" + lm.Name}
	c := NewCtx()
	c.specs = v.cs.Specs
	res.Ctx = c
	defer func() {
		if r := recover(); r != nil {
			if u, ok := r.(unsupported); ok {
				res.Unsupported = u.msg
				return
			}
			if e, ok := r.(evalErr); ok {
				res.Unsupported = "lemma error: " + e.msg
				return
			}
			panic(r)
		}
	}()
	for _, u := range lm.Uses {
		ax := v.cs.Lemmas[u]
		if ax == nil {
			unsup("lemma %s uses unknown %s", lm.Name, u)
		}
		env := &Env{c: c, v: v, vars: map[string]Val{}, mem: NewMem(), pkg: v.pkgOf(ax.Pkg)}
		t, err := env.Bool(ax.E)
		if err != nil {
			unsup("lemma %s uses %s: %v", lm.Name, u, err)
		}
		c.assume(t)
		if ax.Axiom && ax.Trust != "definition" {
			c.trusted["axiom "+u] = true
		}
	}
	env := &Env{c: c, v: v, vars: map[string]Val{}, mem: NewMem(), pkg: v.pkgOf(lm.Pkg)}
	e := lm.E
	var inputs []NamedTerm
	for e.Op == "q" && e.S == "forall" {
		for _, b := range e.Binds {
			t, sorts, spec := env.sortOfTypeName(b.Type)
			ls := make([]Term, len(sorts))
			for i, s := range sorts {
				ls[i] = c.declConst(c.fresh("sk_"+b.Name), s)
				inputs = append(inputs, NamedTerm{Name: fmt.Sprintf("%s#%d", b.Name, i), T: ls[i], Sort: s})
			}
			if spec != "" {
				env.vars[b.Name] = env.mkOfSpecType(spec, ls)
			} else {
				val, _ := c.build(t, ls)
				env.vars[b.Name] = val
				c.assume(v.wfAssume(c, val))
			}
		}
		e = e.Args[0]
	}
	t, err := env.Bool(e)
	if err != nil {
		res.Unsupported = err.Error()
		return
	}
	o := &Obligation{Name: "lemma/" + lm.Name, Kind: "lemma", Func: "lemma/" + lm.Name, Mark: c.mark(), Guard: "true", Goal: t,
		Text: lm.Text, Ctx: c, Inputs: inputs}
	res.Obls = []*Obligation{o}
	return
}

// sinkEscapes follows the parameter `pname` of fn through spills, closures,
// interface conversions and phis and reports every use that is not "first
// argument of one of the allowed callees". n counts the allowed uses.
func sinkEscapes(fn *ssa.Function, pname string, allowed []string) (bad []string, n int) {
	var root ssa.Value
	for _, p := range fn.Params {
		if p.Name() == pname {
			root = p
		}
	}
	if root == nil {
		return []string{"no parameter " + pname}, 0
	}
	seen := map[ssa.Value]bool{}
	var visit func(v ssa.Value, cell bool)
	pos := func(in ssa.Instruction) string {
		p := fn.Prog.Fset.Position(in.Pos())
		return fmt.Sprintf("%s:%d", filepath.Base(p.Filename), p.Line)
	}
	// cell: v is the address of a variable holding the stream (spill / free variable)
	visit = func(v ssa.Value, cell bool) {
		if seen[v] {
			return
		}
		seen[v] = true
		refs := v.Referrers()
		if refs == nil {
			return
		}
		for _, in := range *refs {
			switch in := in.(type) {
			case *ssa.DebugRef:
			case *ssa.Store:
				if cell && in.Addr == v {
					if in.Val != root && !seen[in.Val] {
						bad = append(bad, pos(in)+": the variable is assigned another value")
					}
					continue
				}
				if !cell && in.Val == v {
					if a, ok := in.Addr.(*ssa.Alloc); ok {
						visit(a, true)
						continue
					}
					bad = append(bad, pos(in)+": stored in memory")
					continue
				}
			case *ssa.UnOp:
				if cell && in.Op == token.MUL {
					visit(in, false)
					continue
				}
				bad = append(bad, pos(in)+": "+in.String())
			case *ssa.MakeClosure:
				for i, b := range in.Bindings {
					if b == v {
						visit(in.Fn.(*ssa.Function).FreeVars[i], cell)
					}
				}
			case *ssa.Phi, *ssa.ChangeInterface, *ssa.MakeInterface, *ssa.ChangeType:
				if !cell {
					visit(in.(ssa.Value), false)
					continue
				}
				bad = append(bad, pos(in)+": "+in.String())
			case ssa.CallInstruction:
				cc := in.Common()
				name := calleeName(cc)
				ok := false
				if !cell && len(cc.Args) > 0 && cc.Args[0] == v && !cc.IsInvoke() {
					for _, a := range allowed {
						if strings.HasSuffix(name, a) {
							ok = true
						}
					}
					for _, other := range cc.Args[1:] {
						if other == v {
							ok = false
						}
					}
				}
				if ok {
					n++
				} else {
					bad = append(bad, pos(in)+": passed to "+name)
				}
			default:
				bad = append(bad, pos(in)+": "+in.String())
			}
		}
	}
	visit(root, false)
	sort.Strings(bad)
	return bad, n
}
