package main

// solve.go — SMT-LIB script assembly and the solver race.

import (
	"bytes"
	"context"
	"fmt"
	"os"
	"os/exec"
	"path/filepath"
	"strings"
	"sync"
	"time"
)

type solverSpec struct {
	name string
	argv func(file string, timeout int) []string
}

var solvers = []solverSpec{
	{"z3-new", func(f string, t int) []string { return []string{"z3-new", fmt.Sprintf("-T:%d", t), f} }},
	{"z3", func(f string, t int) []string { return []string{"z3", fmt.Sprintf("-T:%d", t), f} }},
	{"cvc5", func(f string, t int) []string {
		return []string{"cvc5", "--produce-models", fmt.Sprintf("--tlimit=%d", t*1000), f}
	}},
}

func isQuantLine(l string) bool {
	return strings.Contains(l, "(forall ") || strings.Contains(l, "(exists ")
}

// Script builds the SMT-LIB text of an obligation. With dropQuant the
// quantified assumptions are left out (weaker hypotheses: an `unsat` is still
// a proof; a `sat` then only yields a candidate counterexample).
// relevantAxioms: a global axiom is included in a query only if it shares an
// uninterpreted spec function with the rest of the query (closure).
func (o *Obligation) relevantAxioms() map[int]bool {
	syms := map[string]bool{}
	addSyms := func(l string) bool {
		grew := false
		for _, t := range sexprTokens(l) {
			if strings.HasPrefix(t, "spec_") && !syms[t] {
				syms[t] = true
				grew = true
			}
		}
		return grew
	}
	for i, l := range o.Ctx.lines[:o.Mark] {
		if !o.Ctx.axiomLine[i] && !strings.HasPrefix(l, "(declare-") {
			addSyms(l)
		}
	}
	addSyms(o.Guard)
	addSyms(o.Goal)
	incl := map[int]bool{}
	for changed := true; changed; {
		changed = false
		for i := range o.Ctx.axiomLine {
			if i >= o.Mark || incl[i] {
				continue
			}
			hit := false
			for _, t := range sexprTokens(o.Ctx.lines[i]) {
				if strings.HasPrefix(t, "spec_") && syms[t] {
					hit = true
					break
				}
			}
			if hit {
				incl[i] = true
				addSyms(o.Ctx.lines[i])
				changed = true
			}
		}
	}
	return incl
}

func (o *Obligation) Script(dropQuant bool) string {
	var b strings.Builder
	b.WriteString("(set-option :produce-models true)\n(set-logic ALL)\n")
	rel := o.relevantAxioms()
	for i, l := range o.Ctx.lines[:o.Mark] {
		if o.Ctx.axiomLine[i] && !rel[i] {
			continue
		}
		if dropQuant && strings.HasPrefix(l, "(assert ") && isQuantLine(l) {
			continue
		}
		b.WriteString(l)
		b.WriteByte('\n')
	}
	if o.Kind == "vacuity" {
		b.WriteString("(check-sat)\n")
	} else {
		fmt.Fprintf(&b, "(assert (not %s))\n(check-sat)\n", imp(o.Guard, o.Goal))
	}
	var ts []string
	seen := map[string]bool{}
	for _, nt := range append(append([]NamedTerm{}, o.Inputs...), o.Outputs...) {
		if strings.HasPrefix(nt.Sort, "(Array") || seen[nt.T] {
			continue
		}
		seen[nt.T] = true
		ts = append(ts, nt.T)
	}
	if len(ts) > 0 {
		fmt.Fprintf(&b, "(get-value (%s))\n", strings.Join(ts, " "))
	}
	return b.String()
}

// expandQuant replaces every `(forall ((v (_ BitVec 64))) body)` inside an
// assertion by the conjunction of body[v := 0..n-1]. With all string/slice
// lengths bounded by n this is exact for the index-guarded quantifiers that
// contracts of search functions use, and the query becomes quantifier-free:
// used only to obtain faithful small counterexamples (never to prove).
func expandQuant(line string, n int) (string, bool) {
	if !strings.Contains(line, "(forall ") {
		return line, true
	}
	toks := sexprTokens(line)
	out, ok := expandToks(toks, n)
	if !ok {
		return line, false
	}
	return joinSexpr(out), true
}

func expandToks(toks []string, n int) ([]string, bool) {
	var out []string
	for i := 0; i < len(toks); i++ {
		if toks[i] == "(" && i+1 < len(toks) && toks[i+1] == "forall" {
			end := matchParen(toks, i)
			// ( forall ( ( v ( _ BitVec 64 ) ) ) body )
			bEnd := matchParen(toks, i+2)
			binders := toks[i+3 : bEnd]
			if len(binders) != 8 || binders[0] != "(" || binders[2] != "(" || binders[3] != "_" || binders[4] != "BitVec" || binders[5] != "64" {
				return nil, false
			}
			v := binders[1]
			body := toks[bEnd+1 : end]
			if len(body) > 2 && body[0] == "(" && body[1] == "!" {
				// ( ! body :pattern (...) ... )
				bb := body[2:]
				var be int
				if bb[0] == "(" {
					be = matchParen(bb, 0)
				}
				body = bb[:be+1]
			}
			inner, ok := expandToks(body, n)
			if !ok {
				return nil, false
			}
			out = append(out, "(", "and")
			for k := 0; k < n; k++ {
				lit := fmt.Sprintf("#x%016x", k)
				for _, t := range inner {
					if t == v {
						out = append(out, lit)
					} else {
						out = append(out, t)
					}
				}
			}
			out = append(out, ")")
			i = end
			continue
		}
		out = append(out, toks[i])
	}
	return out, true
}

// ScriptSmall: like Script, with quantified assumptions expanded over 0..n-1
// (those that cannot be expanded are dropped).
func (o *Obligation) ScriptSmall(n int) string {
	var b strings.Builder
	b.WriteString("(set-option :produce-models true)\n(set-logic ALL)\n")
	rel := o.relevantAxioms()
	for i, l := range o.Ctx.lines[:o.Mark] {
		if o.Ctx.axiomLine[i] && !rel[i] {
			continue
		}
		if strings.HasPrefix(l, "(assert ") && isQuantLine(l) {
			e, ok := expandQuant(l, n)
			if !ok || isQuantLine(e) {
				continue
			}
			l = e
		}
		b.WriteString(l)
		b.WriteByte('\n')
	}
	g := imp(o.Guard, o.Goal)
	if isQuantLine(g) {
		if e, ok := expandQuant(g, n); ok {
			g = e
		}
	}
	fmt.Fprintf(&b, "(assert (not %s))\n(check-sat)\n", g)
	var ts []string
	seen := map[string]bool{}
	for _, nt := range append(append([]NamedTerm{}, o.Inputs...), o.Outputs...) {
		if strings.HasPrefix(nt.Sort, "(Array") || seen[nt.T] {
			continue
		}
		seen[nt.T] = true
		ts = append(ts, nt.T)
	}
	if len(ts) > 0 {
		fmt.Fprintf(&b, "(get-value (%s))\n", strings.Join(ts, " "))
	}
	return b.String()
}

type solveResult struct {
	status  string
	solver  string
	seconds float64
	out     string
}

func runSolver(ctx context.Context, sp solverSpec, file string, timeout int) solveResult {
	argv := sp.argv(file, timeout)
	start := time.Now()
	cmd := exec.CommandContext(ctx, argv[0], argv[1:]...)
	var out bytes.Buffer
	cmd.Stdout = &out
	cmd.Stderr = &out
	_ = cmd.Run()
	el := time.Since(start).Seconds()
	text := out.String()
	first := strings.TrimSpace(strings.SplitN(text, "\n", 2)[0])
	st := "error"
	switch first {
	case "unsat", "sat", "unknown":
		st = first
	case "timeout":
		st = "timeout"
	default:
		if ctx.Err() != nil {
			st = "cancelled"
		} else if strings.Contains(text, "timeout") || strings.Contains(text, "interrupted") {
			st = "timeout"
		}
	}
	return solveResult{st, sp.name, el, text}
}

var procSem = make(chan struct{}, 16)

// race runs all solvers on one script; the first definitive answer wins.
func race(script string, dir, base string, timeout int, all bool) (solveResult, []solveResult) {
	return raceCtx(context.Background(), script, dir, base, timeout, all)
}

func raceCtx(parent context.Context, script string, dir, base string, timeout int, all bool) (solveResult, []solveResult) {
	file := filepath.Join(dir, base+".smt2")
	if err := os.WriteFile(file, []byte(script), 0o644); err != nil {
		return solveResult{status: "error", out: err.Error()}, nil
	}
	ctx, cancel := context.WithCancel(parent)
	defer cancel()
	ch := make(chan solveResult, len(solvers))
	for _, sp := range solvers {
		sp := sp
		go func() {
			procSem <- struct{}{}
			defer func() { <-procSem }()
			if ctx.Err() != nil {
				ch <- solveResult{status: "cancelled", solver: sp.name}
				return
			}
			ch <- runSolver(ctx, sp, file, timeout)
		}()
	}
	var rs []solveResult
	var win solveResult
	win.status = "unknown"
	got := false
	for range solvers {
		r := <-ch
		rs = append(rs, r)
		if (r.status == "unsat" || r.status == "sat") && !got {
			win = r
			got = true
			if !all {
				cancel()
			} else {
				// agreement mode: the other solvers get a grace period to
				// confirm or contradict the first answer (three times what
				// the winner needed, at least 10 s)
				grace := time.Duration(3*r.seconds*float64(time.Second)) + 10*time.Second
				go func() {
					select {
					case <-time.After(grace):
						cancel()
					case <-ctx.Done():
					}
				}()
			}
		}
	}
	if !got {
		// report the most informative non-answer
		for _, r := range rs {
			if r.status == "timeout" {
				win = r
			}
		}
		for _, r := range rs {
			if r.status == "unknown" {
				win = r
			}
		}
	}
	return win, rs
}

// Solve discharges one obligation: phase A without quantified assumptions,
// phase B with all assumptions.
func (o *Obligation) Solve(dir string, timeout int, all bool) {
	if len(o.SubObls) > 0 {
		total := 0.0
		o.Status = "unsat"
		for _, sub := range o.SubObls {
			if sub.Goal == "true" || sub.Guard == "false" {
				continue
			}
			sub.Inputs = o.Inputs
			sub.Solve(dir, timeout, all)
			total += sub.Seconds
			o.Solver = sub.Solver
			if sub.Status != "unsat" {
				o.Status, o.Raw, o.Model, o.Phase = sub.Status, sub.Raw, sub.Model, sub.Phase
				o.Guard, o.Goal, o.Mark = sub.Guard, sub.Goal, sub.Mark
				break
			}
		}
		o.Seconds = total
		if o.Solver == "" {
			o.Solver = "syntactic"
		}
		return
	}
	if len(o.Parts) > 1 {
		// one query per conjunct; discharged iff every one is unsat
		total := 0.0
		for i, p := range o.Parts {
			sub := *o
			sub.Parts = nil
			sub.Goal = p
			sub.Name = fmt.Sprintf("%s.part%d", o.Name, i)
			if p == "true" {
				continue
			}
			sub.Solve(dir, timeout, all)
			total += sub.Seconds
			if sub.Status != "unsat" {
				o.Status, o.Solver, o.Raw, o.Model, o.Phase = sub.Status, sub.Solver, sub.Raw, sub.Model, sub.Phase
				o.Seconds = total
				return
			}
			o.Solver = sub.Solver
		}
		o.Status = "unsat"
		o.Seconds = total
		if o.Solver == "" {
			o.Solver = "syntactic"
		}
		return
	}
	base := sanitize(o.Name)
	if len(base) > 150 {
		base = base[:150]
	}
	tS := time.Now()
	full := o.Script(false)
	if os.Getenv("VCGEN_TRACE") != "" {
		defer func(n string, d float64) {
			fmt.Fprintf(os.Stderr, "obl %s script=%.2fs total=%.2fs status=%s\n", n, d, time.Since(tS).Seconds(), o.Status)
		}(o.Name, time.Since(tS).Seconds())
	}
	hasQ := false
	for _, l := range o.Ctx.lines[:o.Mark] {
		if strings.HasPrefix(l, "(assert ") && isQuantLine(l) {
			hasQ = true
			break
		}
	}
	if o.Kind == "vacuity" || o.Kind == "cover" {
		// satisfiability of the assumptions (and of the guard): expected sat.
		// With quantified assumptions the full script may come back unknown;
		// then the script without them decides: unsat there is unsat of the
		// whole, sat there is only a weak witness (Phase "A").
		if !hasQ {
			w, _ := race(full, dir, base, timeout, false)
			o.Status, o.Solver, o.Seconds, o.Raw, o.Phase = w.status, w.solver, w.seconds, w.out, "B"
			if w.status == "sat" {
				o.Model = parseModel(w.out)
			}
			return
		}
		start := time.Now()
		type res struct{ w solveResult }
		chA := make(chan res, 1)
		chB := make(chan res, 1)
		ctx, cancel := context.WithCancel(context.Background())
		defer cancel()
		tb := timeout
		if tb > 30 {
			tb = 30
		}
		go func() { w, _ := raceCtx(ctx, o.Script(true), dir, base+".A", timeout, false); chA <- res{w} }()
		go func() { w, _ := raceCtx(ctx, full, dir, base+".B", tb, false); chB <- res{w} }()
		var ra, rb *res
		for ra == nil || rb == nil {
			select {
			case r := <-chA:
				ra = &r
				if r.w.status == "unsat" {
					o.Status, o.Solver, o.Raw, o.Phase = "unsat", r.w.solver, r.w.out, "A"
					o.Seconds = time.Since(start).Seconds()
					return
				}
			case r := <-chB:
				rb = &r
				if r.w.status == "sat" || r.w.status == "unsat" {
					o.Status, o.Solver, o.Raw, o.Phase = r.w.status, r.w.solver, r.w.out, "B"
					if r.w.status == "sat" {
						o.Model = parseModel(r.w.out)
					}
					o.Seconds = time.Since(start).Seconds()
					return
				}
			}
		}
		o.Seconds = time.Since(start).Seconds()
		o.Status, o.Solver, o.Raw, o.Phase = ra.w.status, ra.w.solver, ra.w.out, "A"
		if ra.w.status == "sat" {
			o.Model = parseModel(ra.w.out)
		}
		return
	}
	if hasQ {
		// phase A (quantified assumptions dropped: an unsat is still a proof,
		// a sat only a candidate model) and phase B (everything) run
		// concurrently; the first proof wins.
		ctxA, cancelA := context.WithCancel(context.Background())
		ctxB, cancelB := context.WithCancel(context.Background())
		defer cancelA()
		defer cancelB()
		type res struct {
			w  solveResult
			rs []solveResult
		}
		chA := make(chan res, 1)
		chB := make(chan res, 1)
		start := time.Now()
		go func() { w, rs := raceCtx(ctxA, o.Script(true), dir, base+".A", timeout, false); chA <- res{w, rs} }()
		go func() { w, rs := raceCtx(ctxB, full, dir, base+".B", timeout, all); chB <- res{w, rs} }()
		var ra, rb *res
		for ra == nil || rb == nil {
			select {
			case r := <-chA:
				ra = &r
				if r.w.status == "unsat" && !all {
					cancelB()
					o.Phase = "A"
					o.Status, o.Solver, o.Raw = r.w.status, r.w.solver, r.w.out
					o.Seconds = time.Since(start).Seconds()
					return
				}
			case r := <-chB:
				rb = &r
				if r.w.status == "unsat" || r.w.status == "sat" {
					cancelA()
					if ra == nil {
						ra = &res{w: solveResult{status: "cancelled"}}
					}
				}
			}
		}
		o.Seconds = time.Since(start).Seconds()
		if ra.w.status == "unsat" {
			o.Phase = "A"
			o.Status, o.Solver, o.Raw = ra.w.status, ra.w.solver, ra.w.out
			return
		}
		o.Phase = "B"
		o.Status, o.Solver, o.Raw = rb.w.status, rb.w.solver, rb.w.out
		if rb.w.status == "sat" {
			o.Model = parseModel(rb.w.out)
		} else if rb.w.status != "unsat" && ra.w.status == "sat" {
			// candidate counterexample from the weaker hypotheses
			o.Model = parseModel(ra.w.out)
			o.Raw = rb.w.out + "\n--- candidate model from phase A (quantified assumptions dropped) ---\n" + ra.w.out
		}
		if all {
			o.checkAgreement(rb.rs)
		}
		return
	}
	w, rs := race(full, dir, base, timeout, all)
	o.Status, o.Solver, o.Seconds, o.Raw = w.status, w.solver, w.seconds, w.out
	if w.status == "sat" {
		o.Model = parseModel(w.out)
	}
	if all {
		o.checkAgreement(rs)
	}
}

func (o *Obligation) checkAgreement(rs []solveResult) {
	sat, unsat := false, false
	for _, r := range rs {
		if r.status == "sat" {
			sat = true
		}
		if r.status == "unsat" {
			unsat = true
		}
	}
	if sat && unsat {
		o.Status = "disagree"
	}
}

// parseModel reads the (get-value ...) answer: ((term value) ...)
func parseModel(out string) map[string]string {
	m := map[string]string{}
	k := strings.Index(out, "\n")
	if k < 0 {
		return m
	}
	s := strings.TrimSpace(out[k+1:])
	if !strings.HasPrefix(s, "((") {
		return m
	}
	toks := sexprTokens(s)
	// structure: ( (term value) (term value) ... )
	pos := 1
	for pos < len(toks) && toks[pos] == "(" {
		end := matchParen(toks, pos)
		inner := toks[pos+1 : end]
		// split inner into two s-expressions
		var first []string
		if inner[0] == "(" {
			e := matchParen(inner, 0)
			first = inner[:e+1]
		} else {
			first = inner[:1]
		}
		rest := inner[len(first):]
		m[joinSexpr(first)] = joinSexpr(rest)
		pos = end + 1
	}
	return m
}

func sexprTokens(s string) []string {
	var out []string
	i := 0
	for i < len(s) {
		c := s[i]
		switch {
		case c == '(' || c == ')':
			out = append(out, string(c))
			i++
		case c == ' ' || c == '\n' || c == '\t' || c == '\r':
			i++
		case c == '|':
			j := strings.IndexByte(s[i+1:], '|')
			out = append(out, s[i:i+j+2])
			i += j + 2
		default:
			j := i
			for j < len(s) && !strings.ContainsRune("() \n\t\r", rune(s[j])) {
				j++
			}
			out = append(out, s[i:j])
			i = j
		}
	}
	return out
}

func matchParen(t []string, i int) int {
	d := 0
	for j := i; j < len(t); j++ {
		if t[j] == "(" {
			d++
		} else if t[j] == ")" {
			d--
			if d == 0 {
				return j
			}
		}
	}
	return len(t) - 1
}

func joinSexpr(t []string) string {
	var b strings.Builder
	for i, x := range t {
		if i > 0 && x != ")" && t[i-1] != "(" {
			b.WriteByte(' ')
		}
		b.WriteString(x)
	}
	return b.String()
}

// normTerm normalises a term the same way the solver prints it back.
func normTerm(t string) string { return joinSexpr(sexprTokens(t)) }

// solveAll discharges obligations in parallel.
func solveAll(obls []*Obligation, dir string, timeout int, all bool) {
	var wg sync.WaitGroup
	sem := make(chan struct{}, 12)
	for _, o := range obls {
		o := o
		if o.Kind == "structural" || o.Solver == "ssa-scan" {
			continue
		}
		if (o.Goal == "true" || o.Guard == "false") && len(o.SubObls) == 0 {
			if o.Kind != "vacuity" {
				o.Status, o.Solver = "unsat", "syntactic"
				continue
			}
		}
		wg.Add(1)
		go func() {
			defer wg.Done()
			sem <- struct{}{}
			defer func() { <-sem }()
			o.Solve(dir, timeout, all)
		}()
	}
	wg.Wait()
}
