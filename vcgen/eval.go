package main

// eval.go — translation of contract expressions to SMT terms in a symbolic
// state (variables + memory), with old() referring to the pre-state.

import (
	"fmt"
	"go/types"
	"math/big"
	"os"
	"sort"
	"strconv"
	"strings"

	"golang.org/x/tools/go/ssa"
)

const KLit Kind = 100 // untyped literal, T holds decimal text / "nil"

type Env struct {
	c    *Ctx
	v    *Verifier
	vars map[string]Val
	mem  *MemState
	old  *Env
	prev *Env
	ghosts map[string]string // ghost counter name -> memory key
	pkg  *types.Package
	// side obligations produced while evaluating (bounds of spec indexing are
	// not generated: specs are total functions over arrays)
}

type evalErr struct{ msg string }

func efail(f string, a ...interface{}) { panic(evalErr{fmt.Sprintf(f, a...)}) }

func (ev *Env) child() *Env {
	n := *ev
	n.vars = map[string]Val{}
	for k, v := range ev.vars {
		n.vars[k] = v
	}
	return &n
}

func (ev *Env) Bool(e *Expr) (t Term, err error) {
	defer func() {
		if r := recover(); r != nil {
			if ee, ok := r.(evalErr); ok {
				err = fmt.Errorf("%s (in %s)", ee.msg, e.String())
				return
			}
			panic(r)
		}
	}()
	v := ev.eval(e)
	if v.K != KBool {
		efail("expression is not boolean: %s", e.String())
	}
	return v.T, nil
}

// Goal evaluates a boolean expression that is to be proved: top-level
// universal quantifiers (also on the right of ==> and under &&-free
// positions) are replaced by fresh constants, so that a failing goal yields a
// model and the solver sees fewer quantifier alternations.
func (ev *Env) Goal(e *Expr) (t Term, err error) {
	switch {
	case e.Op == "q" && e.S == "forall":
		n := ev.child()
		for _, b := range e.Binds {
			ty, sorts, spec := ev.safeSort(b.Type)
			if sorts == nil {
				return ev.Bool(e)
			}
			ls := make([]Term, len(sorts))
			for i, s := range sorts {
				ls[i] = ev.c.declConst(ev.c.fresh("sk_"+b.Name), s)
			}
			if spec != "" {
				n.vars[b.Name] = ev.mkOfSpecType(spec, ls)
			} else {
				val, _ := ev.c.build(ty, ls)
				n.vars[b.Name] = val
				ev.c.assume(ev.v.wfAssume(ev.c, val))
			}
		}
		return n.Goal(e.Args[0])
	case e.Op == "bin" && e.S == "==>":
		a, err := ev.Bool(e.Args[0])
		if err != nil {
			return "", err
		}
		b, err := ev.Goal(e.Args[1])
		if err != nil {
			return "", err
		}
		return imp(a, b), nil
	case e.Op == "bin" && e.S == "&&":
		a, err := ev.Goal(e.Args[0])
		if err != nil {
			return "", err
		}
		b, err := ev.Goal(e.Args[1])
		if err != nil {
			return "", err
		}
		return and(a, b), nil
	case e.Op == "call":
		// a spec macro whose body is quantified: skolemise through it
		if sf, ok := ev.v.cs.Specs[e.S]; ok && sf.Body != nil && goalShaped(sf.Body) {
			var n *Env
			err := func() (err error) {
				defer func() {
					if r := recover(); r != nil {
						if ee, ok := r.(evalErr); ok {
							err = fmt.Errorf("%s (in %s)", ee.msg, e.String())
							return
						}
						panic(r)
					}
				}()
				args := make([]Val, len(e.Args))
				for i := range args {
					args[i] = ev.eval(e.Args[i])
				}
				n = ev.specEnv(sf, args)
				return nil
			}()
			if err != nil {
				return "", err
			}
			return n.Goal(sf.Body)
		}
	}
	return ev.Bool(e)
}

// goalShaped: the expression has a universal quantifier in a positive
// position reachable through ==> and &&.
func goalShaped(e *Expr) bool {
	switch {
	case e.Op == "q" && e.S == "forall":
		return true
	case e.Op == "bin" && e.S == "==>":
		return goalShaped(e.Args[1])
	case e.Op == "bin" && e.S == "&&":
		return goalShaped(e.Args[0]) || goalShaped(e.Args[1])
	}
	return false
}

func (ev *Env) safeSort(name string) (t types.Type, sorts []string, spec string) {
	defer func() {
		if r := recover(); r != nil {
			sorts = nil
		}
	}()
	return ev.sortOfTypeName(name)
}

func (ev *Env) Value(e *Expr) (v Val, err error) {
	defer func() {
		if r := recover(); r != nil {
			if ee, ok := r.(evalErr); ok {
				err = fmt.Errorf("%s (in %s)", ee.msg, e.String())
				return
			}
			panic(r)
		}
	}()
	return ev.eval(e), nil
}

func wideVal(t Term) Val { return Val{K: KBV, T: t, W: 128} }

func (ev *Env) sortOfTypeName(name string) (types.Type, []string, string) {
	switch name {
	case "wide":
		return nil, []string{bvSort(128)}, "wide"
	case "Int":
		return nil, []string{"Int"}, "Int"
	case "Ref":
		return nil, []string{SRef}, "Ref"
	case "Iface":
		return nil, []string{SIface}, "Iface"
	case "Key":
		return nil, []string{SKey}, "Key"
	case "OID":
		if ev.pkg != nil && ev.pkg.Name() != "git" {
			name = "git.OID"
		}
	}
	t := ev.v.lookupType(ev.pkg, name)
	if t == nil {
		efail("unknown type %q", name)
	}
	return t, ev.c.leafSorts(t), ""
}

func (ev *Env) mkOfSpecType(name string, ls []Term) Val {
	switch name {
	case "wide":
		return wideVal(ls[0])
	case "Int":
		return Val{K: KInt, T: ls[0]}
	case "Ref":
		return Val{K: KRef, T: ls[0]}
	case "Iface":
		return Val{K: KIface, T: ls[0]}
	case "Key":
		return Val{K: KKey, T: ls[0]}
	}
	panic("mkOfSpecType")
}

func (ev *Env) coerce(lit Val, like Val) Val {
	if lit.K != KLit {
		return lit
	}
	switch like.K {
	case KBV:
		if lit.T == "nil" {
			efail("nil used as integer")
		}
		n, ok := new(big.Int).SetString(lit.T, 0)
		if !ok {
			efail("bad integer literal %s", lit.T)
		}
		if n.Sign() < 0 {
			m := new(big.Int).Lsh(big.NewInt(1), uint(like.W))
			n.Add(n, m)
		}
		return Val{K: KBV, T: bvLitBig(like.W, n.String()), W: like.W, Signed: like.Signed, Typ: like.Typ}
	case KInt:
		n, _ := new(big.Int).SetString(lit.T, 0)
		if n.Sign() < 0 {
			return Val{K: KInt, T: "(- " + n.Neg(n).String() + ")"}
		}
		return Val{K: KInt, T: n.String()}
	case KF64:
		return Val{K: KF64, T: fpLit(lit.T), Typ: like.Typ}
	case KRef:
		if lit.T == "nil" || lit.T == "0" {
			return Val{K: KRef, T: "0", Typ: like.Typ}
		}
	case KIface:
		if lit.T == "nil" {
			return Val{K: KIface, T: "inil", Typ: like.Typ}
		}
	case KLit:
		return lit
	}
	efail("cannot coerce literal %s to %v", lit.T, like.K)
	return lit
}

func fpLit(s string) Term {
	f, err := strconv.ParseFloat(s, 64)
	if err != nil {
		efail("bad float literal %s", s)
	}
	return fpOfFloat(f)
}

func (ev *Env) eval(e *Expr) Val {
	switch e.Op {
	case "lit":
		return Val{K: KLit, T: e.S}
	case "chr":
		return Val{K: KLit, T: e.S}
	case "flt":
		ev.c.hasFP = true
		return Val{K: KF64, T: fpLit(e.S), Typ: types.Typ[types.Float64]}
	case "str":
		return ev.c.strConst(e.S)
	case "id":
		switch e.S {
		case "true", "false":
			return boolVal(e.S)
		case "nil":
			return Val{K: KLit, T: "nil"}
		}
		if v, ok := ev.vars[e.S]; ok {
			return v
		}
		if nw, ok := ev.c.alias[e.S]; ok {
			if v, ok := ev.vars[nw]; ok {
				return v
			}
		}
		if key, ok := ev.ghosts[e.S]; ok {
			return bvVal(app("select", ev.c.memRaw(ev.mem, key), "0"), 64, true, types.Typ[types.Int])
		}
		if sf, ok := ev.v.cs.Specs[e.S]; ok && len(sf.Params) == 0 {
			return ev.callSpec(sf, nil)
		}
		if v, ok := ev.v.globalVal(ev, e.S); ok {
			return v
		}
		efail("unknown identifier %q", e.S)
	case "sel":
		if e.Args[0].Op == "id" {
			// package-qualified global
			if _, isVar := ev.vars[e.Args[0].S]; !isVar {
				if v, ok := ev.v.globalVal(ev, e.Args[0].S+"."+e.S); ok {
					return v
				}
			}
		}
		x := ev.eval(e.Args[0])
		return ev.selectField(x, e.S)
	case "un":
		switch e.S {
		case "!":
			x := ev.eval(e.Args[0])
			if x.K != KBool {
				efail("! on non-bool")
			}
			return boolVal(not(x.T))
		case "-":
			x := ev.eval(e.Args[0])
			switch x.K {
			case KLit:
				if strings.HasPrefix(x.T, "-") {
					return Val{K: KLit, T: x.T[1:]}
				}
				return Val{K: KLit, T: "-" + x.T}
			case KBV:
				x.T = app("bvneg", x.T)
				return x
			case KInt:
				x.T = app("-", x.T)
				return x
			case KF64:
				x.T = app("fp.neg", x.T)
				return x
			}
		case "*":
			x := ev.eval(e.Args[0])
			return ev.deref(x)
		case "&":
			return ev.addrOf(e.Args[0])
		}
		efail("unsupported unary %s", e.S)
	case "bin":
		return ev.binary(e)
	case "idx":
		x := ev.eval(e.Args[0])
		return ev.index(x, e.Args[1])
	case "slice":
		x := ev.eval(e.Args[0])
		if x.K != KSlice {
			efail("slice of non-slice")
		}
		lo := bvLit(64, 0)
		hi := x.Len
		if e.Args[1] != nil {
			lo = ev.coerce(ev.eval(e.Args[1]), bvVal("", 64, true, nil)).T
		}
		if e.Args[2] != nil {
			hi = ev.coerce(ev.eval(e.Args[2]), bvVal("", 64, true, nil)).T
		}
		r := x
		r.Off = app("bvadd", x.Off, lo)
		r.Len = app("bvsub", hi, lo)
		return r
	case "call":
		return ev.call(e)
	case "q":
		return ev.quant(e)
	}
	efail("cannot evaluate %s", e.String())
	return Val{}
}

func (ev *Env) deref(x Val) Val {
	if x.K != KRef || x.Typ == nil {
		efail("deref of non-pointer")
	}
	pt, ok := x.Typ.Underlying().(*types.Pointer)
	if !ok {
		efail("deref of non-pointer type %s", x.Typ)
	}
	return ev.c.load(ev.mem, x.T, pt.Elem())
}

func (ev *Env) selectField(x Val, name string) Val {
	if x.Typ == nil {
		efail("field %s of untyped value", name)
	}
	if name == "*" {
		efail(".* only allowed in modifies")
	}
	obj, path, _ := types.LookupFieldOrMethod(x.Typ, true, ev.pkg, name)
	fld, ok := obj.(*types.Var)
	if !ok || fld == nil {
		// try with the declaring package of the type (unexported fields)
		if n, isN := derefType(x.Typ).(*types.Named); isN && n.Obj().Pkg() != nil {
			obj, path, _ = types.LookupFieldOrMethod(x.Typ, true, n.Obj().Pkg(), name)
			fld, ok = obj.(*types.Var)
		}
		if !ok || fld == nil {
			if alt := fieldAlias(x.Typ, name); alt != "" {
				return ev.selectField(x, alt)
			}
			efail("no field %s in %s", name, x.Typ)
		}
	}
	cur := x
	for _, idx := range path {
		cur = ev.fieldByIndex(cur, idx)
	}
	return cur
}

func derefType(t types.Type) types.Type {
	if p, ok := t.Underlying().(*types.Pointer); ok {
		return p.Elem()
	}
	return t
}

func (ev *Env) fieldByIndex(x Val, idx int) Val {
	switch x.K {
	case KRef:
		pt, ok := x.Typ.Underlying().(*types.Pointer)
		if !ok {
			efail("field of non-pointer ref")
		}
		st := pt.Elem().Underlying().(*types.Struct)
		a := ev.c.fieldAddr(x.T, pt.Elem(), idx)
		return ev.c.load(ev.mem, a, st.Field(idx).Type())
	case KStruct:
		return x.Fields[idx]
	}
	efail("field selection on kind %v", x.K)
	return Val{}
}

// addrOf evaluates &lvalue to a typed pointer value.
func (ev *Env) addrOf(e *Expr) Val {
	switch e.Op {
	case "sel":
		base := ev.eval(e.Args[0])
		if base.K != KRef {
			// x.f where x is itself a struct lvalue (embedded struct field)
			base = ev.addrOf(e.Args[0])
		}
		pt, isPtr := base.Typ.Underlying().(*types.Pointer)
		if !isPtr {
			efail("&x.f needs pointer base")
		}
		obj, path, _ := types.LookupFieldOrMethod(base.Typ, true, ev.pkg, e.S)
		fld, ok := obj.(*types.Var)
		if !ok {
			if n, isN := pt.Elem().(*types.Named); isN {
				obj, path, _ = types.LookupFieldOrMethod(base.Typ, true, n.Obj().Pkg(), e.S)
				fld, ok = obj.(*types.Var)
			}
			if !ok {
				if alt := fieldAlias(base.Typ, e.S); alt != "" {
					obj, path, _ = types.LookupFieldOrMethod(base.Typ, true, ev.pkg, alt)
					if fld, ok = obj.(*types.Var); !ok {
						if n, isN := pt.Elem().(*types.Named); isN {
							obj, path, _ = types.LookupFieldOrMethod(base.Typ, true, n.Obj().Pkg(), alt)
							fld, ok = obj.(*types.Var)
						}
					}
				}
			}
			if !ok {
				efail("no field %s", e.S)
			}
		}
		addr := base.T
		cur := pt.Elem()
		for _, idx := range path {
			addr = ev.c.fieldAddr(addr, cur, idx)
			cur = cur.Underlying().(*types.Struct).Field(idx).Type()
		}
		_ = fld
		return refVal(addr, types.NewPointer(cur))
	case "un":
		if e.S == "*" {
			return ev.eval(e.Args[0])
		}
	case "id":
		// address of a package-level variable
		if ev.pkg != nil {
			if sp := ev.v.spkgs[ev.pkg.Path()]; sp != nil {
				if g, ok := sp.Members[e.S].(*ssa.Global); ok {
					return refVal(ev.v.globalAddr(ev.c, g), g.Type())
				}
			}
		}
	}
	efail("cannot take address of %s", e.String())
	return Val{}
}

func (ev *Env) index(x Val, ie *Expr) Val {
	switch x.K {
	case KSlice:
		i := ev.coerce(ev.eval(ie), bvVal("", 64, true, nil))
		if i.K != KBV {
			efail("index is not an integer")
		}
		it := i.T
		if i.W < 64 {
			it = extend(i, 64)
		}
		return ev.c.sliceElem(x, it)
	case KRef:
		if mt, ok := x.Typ.Underlying().(*types.Map); ok {
			k := ev.eval(ie)
			_, val := ev.c.mapLookup(ev.mem, x.T, mt, ev.c.mapKey(mt, ev.coerceTo(k, mt.Key())))
			return val
		}
	case KBV:
		// byte array as bit-vector: constant index only
		if x.Typ != nil {
			if at, ok := x.Typ.Underlying().(*types.Array); ok {
				iv := ev.eval(ie)
				if iv.K == KLit {
					n, _ := strconv.Atoi(iv.T)
					return byteOfArr(x, int(at.Len()), n)
				}
			}
		}
	}
	efail("cannot index %v", x.K)
	return Val{}
}

func byteOfArr(x Val, n, i int) Val {
	// element 0 is the most significant byte
	hi := 8*(n-i) - 1
	lo := 8 * (n - i - 1)
	return bvVal(fmt.Sprintf("((_ extract %d %d) %s)", hi, lo, x.T), 8, false, types.Typ[types.Uint8])
}

func (ev *Env) coerceTo(v Val, t types.Type) Val {
	if v.K != KLit {
		return v
	}
	z := ev.c.zeroVal(t)
	return ev.coerce(v, z)
}

func extend(v Val, to int) Term {
	if v.W >= to {
		return v.T
	}
	if v.Signed {
		return fmt.Sprintf("((_ sign_extend %d) %s)", to-v.W, v.T)
	}
	return fmt.Sprintf("((_ zero_extend %d) %s)", to-v.W, v.T)
}

func (ev *Env) binary(e *Expr) Val {
	op := e.S
	if op == "&&" || op == "||" || op == "==>" || op == "<==>" {
		a, b := ev.eval(e.Args[0]), ev.eval(e.Args[1])
		if a.K != KBool || b.K != KBool {
			efail("%s on non-bool operands", op)
		}
		switch op {
		case "&&":
			return boolVal(and(a.T, b.T))
		case "||":
			return boolVal(or(a.T, b.T))
		case "==>":
			return boolVal(imp(a.T, b.T))
		default:
			return boolVal(eq(a.T, b.T))
		}
	}
	a, b := ev.eval(e.Args[0]), ev.eval(e.Args[1])
	if a.K == KLit && b.K != KLit {
		a = ev.coerce(a, b)
	} else if b.K == KLit && a.K != KLit {
		if (op == "<<" || op == ">>") && a.K == KBV {
			b = ev.coerce(b, a)
		} else {
			b = ev.coerce(b, a)
		}
	} else if a.K == KLit && b.K == KLit {
		// constant folding over big integers
		x, _ := new(big.Int).SetString(a.T, 0)
		y, _ := new(big.Int).SetString(b.T, 0)
		if x == nil || y == nil {
			if op == "==" {
				return boolVal(fmt.Sprint(a.T == b.T))
			}
			efail("bad literal arithmetic")
		}
		r := new(big.Int)
		switch op {
		case "+":
			r.Add(x, y)
		case "-":
			r.Sub(x, y)
		case "*":
			r.Mul(x, y)
		case "/":
			r.Quo(x, y)
		case "<<":
			r.Lsh(x, uint(y.Uint64()))
		case "==":
			return boolVal(fmt.Sprint(x.Cmp(y) == 0))
		case "<":
			return boolVal(fmt.Sprint(x.Cmp(y) < 0))
		case "<=":
			return boolVal(fmt.Sprint(x.Cmp(y) <= 0))
		default:
			efail("unsupported literal op %s", op)
		}
		return Val{K: KLit, T: r.String()}
	}
	if op == "==" || op == "!=" {
		t := ev.equal(a, b)
		if op == "!=" {
			t = not(t)
		}
		return boolVal(t)
	}
	if a.K != b.K {
		efail("operand kinds differ for %s: %v vs %v", op, a.K, b.K)
	}
	switch a.K {
	case KBV:
		if a.W != b.W {
			if op == "<<" || op == ">>" {
				if b.W < a.W {
					b.T = extend(Val{T: b.T, W: b.W, Signed: false}, a.W)
				} else {
					efail("shift count wider than operand")
				}
				b.W = a.W
			} else {
				efail("bit widths differ for %s: %d vs %d (%s)", op, a.W, b.W, e.String())
			}
		}
		signed := a.Signed
		r := a
		if r.Typ == nil {
			r.Typ = b.Typ
		}
		switch op {
		case "+":
			r.T = app("bvadd", a.T, b.T)
		case "-":
			r.T = app("bvsub", a.T, b.T)
		case "*":
			r.T = app("bvmul", a.T, b.T)
		case "/":
			if signed {
				r.T = app("bvsdiv", a.T, b.T)
			} else {
				r.T = app("bvudiv", a.T, b.T)
			}
		case "%":
			if signed {
				r.T = app("bvsrem", a.T, b.T)
			} else {
				r.T = app("bvurem", a.T, b.T)
			}
		case "&":
			r.T = app("bvand", a.T, b.T)
		case "|":
			r.T = app("bvor", a.T, b.T)
		case "^":
			r.T = app("bvxor", a.T, b.T)
		case "<<":
			r.T = app("bvshl", a.T, b.T)
		case ">>":
			if signed {
				r.T = app("bvashr", a.T, b.T)
			} else {
				r.T = app("bvlshr", a.T, b.T)
			}
		case "<", "<=", ">", ">=":
			m := map[string][2]string{"<": {"bvult", "bvslt"}, "<=": {"bvule", "bvsle"}, ">": {"bvugt", "bvsgt"}, ">=": {"bvuge", "bvsge"}}[op]
			f := m[0]
			if signed {
				f = m[1]
			}
			return boolVal(app(f, a.T, b.T))
		default:
			efail("unsupported bv op %s", op)
		}
		return r
	case KInt:
		switch op {
		case "+", "-", "*":
			return Val{K: KInt, T: app(op, a.T, b.T)}
		case "/":
			return Val{K: KInt, T: app("div", a.T, b.T)}
		case "%":
			return Val{K: KInt, T: app("mod", a.T, b.T)}
		case "<", "<=", ">", ">=":
			return boolVal(app(op, a.T, b.T))
		}
	case KRef:
		// address comparison only through == / !=
	case KF64:
		ev.c.hasFP = true
		switch op {
		case "+":
			return Val{K: KF64, T: app("fp.add RNE", a.T, b.T), Typ: a.Typ}
		case "-":
			return Val{K: KF64, T: app("fp.sub RNE", a.T, b.T), Typ: a.Typ}
		case "*":
			return Val{K: KF64, T: app("fp.mul RNE", a.T, b.T), Typ: a.Typ}
		case "/":
			return Val{K: KF64, T: app("fp.div RNE", a.T, b.T), Typ: a.Typ}
		case "<":
			return boolVal(app("fp.lt", a.T, b.T))
		case "<=":
			return boolVal(app("fp.leq", a.T, b.T))
		case ">":
			return boolVal(app("fp.gt", a.T, b.T))
		case ">=":
			return boolVal(app("fp.geq", a.T, b.T))
		}
	}
	efail("unsupported operator %s on kind %v", op, a.K)
	return Val{}
}

func (ev *Env) equal(a, b Val) Term {
	if a.K == KLit {
		a = ev.coerce(a, b)
	}
	if b.K == KLit {
		b = ev.coerce(b, a)
	}
	return ev.c.equalVals(a, b)
}

// equalVals is Go's == lifted to symbolic values.
func (c *Ctx) equalVals(a, b Val) Term {
	if a.K != b.K {
		efail("== on different kinds %v / %v", a.K, b.K)
	}
	switch a.K {
	case KBool, KBV, KRef, KIface, KInt, KKey:
		if a.K == KBV && a.W != b.W {
			efail("== on different widths %d / %d", a.W, b.W)
		}
		return eq(a.T, b.T)
	case KF64:
		return app("fp.eq", a.T, b.T)
	case KStruct, KTuple:
		var ts []Term
		for i := range a.Fields {
			ts = append(ts, c.equalVals(a.Fields[i], b.Fields[i]))
		}
		return and(ts...)
	case KSlice:
		return c.strEq(a, b)
	}
	efail("== unsupported for kind %v", a.K)
	return ""
}

func (ev *Env) quant(e *Expr) Val {
	n := ev.child()
	var binds []string
	for _, b := range e.Binds {
		t, sorts, spec := ev.sortOfTypeName(b.Type)
		ls := make([]Term, len(sorts))
		for i, s := range sorts {
			nm := ev.c.fresh("q_" + b.Name)
			ev.c.bound[nm] = true
			ls[i] = nm
			binds = append(binds, fmt.Sprintf("(%s %s)", nm, s))
		}
		if spec != "" {
			n.vars[b.Name] = ev.mkOfSpecType(spec, ls)
		} else {
			v, _ := ev.c.build(t, ls)
			n.vars[b.Name] = v
		}
	}
	body := n.eval(e.Args[0])
	if body.K != KBool {
		efail("quantifier body not boolean")
	}
	ev.c.hasQ = true
	var names []string
	for _, b := range binds {
		names = append(names, b[1:strings.Index(b, " ")])
	}
	if e.S == "forall" && os.Getenv("VCGEN_PATTERNS") != "" {
		if pats := inferPatterns(body.T, names); len(pats) > 0 {
			var ps []string
			for _, p := range pats {
				ps = append(ps, ":pattern ("+p+")")
			}
			return boolVal(fmt.Sprintf("(forall (%s) (! %s %s))", strings.Join(binds, " "), body.T, strings.Join(ps, " ")))
		}
	}
	return boolVal(fmt.Sprintf("(%s (%s) %s)", e.S, strings.Join(binds, " "), body.T))
}

// inferPatterns proposes E-matching triggers for a quantified contract
// clause: array reads and applications of uninterpreted functions that
// contain every bound variable, preferring reads whose index is the variable
// itself or base+variable.
func inferPatterns(body Term, vars []string) []string {
	toks := sexprTokens(body)
	type cand struct {
		t     string
		score int
	}
	var cands []cand
	seen := map[string]bool{}
	hasAll := func(ts []string) bool {
		for _, v := range vars {
			ok := false
			for _, t := range ts {
				if t == v {
					ok = true
				}
			}
			if !ok {
				return false
			}
		}
		return true
	}
	hasAny := func(ts []string) bool {
		for _, t := range ts {
			for _, v := range vars {
				if t == v {
					return true
				}
			}
		}
		return false
	}
	for i := 0; i < len(toks); i++ {
		if toks[i] != "(" || i+1 >= len(toks) {
			continue
		}
		head := toks[i+1]
		end := matchParen(toks, i)
		sub := toks[i : end+1]
		switch {
		case head == "select":
			// (select A I): A must not mention the variables, I must
			aStart := i + 2
			aEnd := aStart
			if toks[aStart] == "(" {
				aEnd = matchParen(toks, aStart)
			}
			arr := toks[aStart : aEnd+1]
			idx := toks[aEnd+1 : end]
			if hasAny(arr) || !hasAll(idx) {
				continue
			}
			score := 3
			if len(idx) == 1 {
				score = 0
			} else if len(idx) == 5 && idx[1] == "bvadd" {
				score = 1
			}
			// arithmetic other than base+var makes a poor trigger
			for _, t := range idx {
				if t == "bvsub" || t == "bvmul" || t == "bvneg" {
					score = 9
				}
			}
			t := joinSexpr(sub)
			if !seen[t] && score < 9 {
				seen[t] = true
				cands = append(cands, cand{t, score})
			}
		case strings.HasPrefix(head, "spec_") || head == "strkey" || head == "hasprefix":
			if !hasAll(sub) {
				continue
			}
			bad := false
			for _, t := range sub {
				if t == "bvsub" || t == "bvadd" || t == "ite" || t == "=" || t == "and" || t == "or" || t == "not" || t == "=>" {
					bad = true
				}
			}
			t := joinSexpr(sub)
			if !seen[t] && !bad {
				seen[t] = true
				cands = append(cands, cand{t, 2})
			}
		}
	}
	if len(cands) == 0 {
		return nil
	}
	best := 99
	for _, c := range cands {
		if c.score < best {
			best = c.score
		}
	}
	var out []string
	for _, c := range cands {
		if c.score <= best+1 && len(out) < 4 {
			out = append(out, c.t)
		}
	}
	return out
}

func (ev *Env) call(e *Expr) Val {
	name := e.S
	arg := func(i int) Val { return ev.eval(e.Args[i]) }
	switch name {
	case "old":
		if ev.old == nil {
			return arg(0)
		}
		o := ev.old.child()
		// bound variables of enclosing quantifiers stay visible
		for k, v := range ev.vars {
			if _, ok := o.vars[k]; !ok {
				o.vars[k] = v
			}
		}
		return o.eval(e.Args[0])
	case "all", "any":
		// all(j, lo, hi, body): finite conjunction over lo <= j < hi (literal bounds)
		if len(e.Args) != 4 || e.Args[0].Op != "id" || e.Args[1].Op != "lit" || e.Args[2].Op != "lit" {
			efail("all(j, lo, hi, body) needs an identifier and literal bounds")
		}
		lo, _ := strconv.Atoi(e.Args[1].S)
		hi, _ := strconv.Atoi(e.Args[2].S)
		var ts []Term
		for k := lo; k < hi; k++ {
			n := ev.child()
			n.vars[e.Args[0].S] = Val{K: KLit, T: strconv.Itoa(k)}
			b := n.eval(e.Args[3])
			if b.K != KBool {
				efail("all(): body not boolean")
			}
			ts = append(ts, b.T)
		}
		if name == "any" {
			return boolVal(or(ts...))
		}
		return boolVal(and(ts...))
	case "prev":
		if ev.prev == nil {
			efail("prev() outside a loop step clause")
		}
		p := ev.prev.child()
		for k, v := range ev.vars {
			if _, ok := p.vars[k]; !ok {
				p.vars[k] = v
			}
		}
		return p.eval(e.Args[0])
	case "wide":
		x := arg(0)
		if x.K == KLit {
			return ev.coerce(x, wideVal(""))
		}
		if x.K != KBV {
			efail("wide() of non-integer")
		}
		return wideVal(extend(x, 128))
	case "toInt":
		x := arg(0)
		if x.K == KLit {
			return ev.coerce(x, Val{K: KInt})
		}
		if x.K != KBV {
			efail("toInt() of non-integer")
		}
		if x.Signed {
			efail("toInt of signed value unsupported")
		}
		return Val{K: KInt, T: app("bv2nat", x.T)}
	case "min", "max":
		a, b := arg(0), arg(1)
		if a.K == KLit {
			a = ev.coerce(a, b)
		}
		if b.K == KLit {
			b = ev.coerce(b, a)
		}
		var le Term
		switch a.K {
		case KBV:
			if a.W != b.W {
				efail("min/max widths differ")
			}
			if a.Signed {
				le = app("bvsle", a.T, b.T)
			} else {
				le = app("bvule", a.T, b.T)
			}
		case KInt:
			le = app("<=", a.T, b.T)
		default:
			efail("min/max on kind %v", a.K)
		}
		r := a
		if name == "min" {
			r.T = iteT(le, a.T, b.T)
		} else {
			r.T = iteT(le, b.T, a.T)
		}
		return r
	case "ite":
		c := arg(0)
		a, b := arg(1), arg(2)
		if a.K == KLit {
			a = ev.coerce(a, b)
		}
		if b.K == KLit {
			b = ev.coerce(b, a)
		}
		return ev.c.iteVal(c.T, a, b)
	case "len":
		x := arg(0)
		switch x.K {
		case KSlice:
			return bvVal(x.Len, 64, true, types.Typ[types.Int])
		case KRef:
			if mt, ok := x.Typ.Underlying().(*types.Map); ok {
				return bvVal(ev.c.mapLen(ev.mem, x.T, mt), 64, true, types.Typ[types.Int])
			}
		}
		efail("len of kind %v", x.K)
	case "has":
		m, k := arg(0), arg(1)
		mt, ok := m.Typ.Underlying().(*types.Map)
		if !ok {
			efail("has() needs a map")
		}
		in, _ := ev.c.mapLookup(ev.mem, m.T, mt, ev.c.mapKey(mt, ev.coerceTo(k, mt.Key())))
		return boolVal(in)
	case "catkey":
		a, b := arg(0), arg(1)
		if a.K != KKey || b.K != KKey {
			efail("catkey needs keys")
		}
		ev.c.declFun("catkey", []string{SKey, SKey}, SKey)
		return Val{K: KKey, T: app("catkey", a.T, b.T)}
	case "catkeys":
		// catkeys(k1, ..., kn): left-associated concatenation of content keys
		ev.c.declFun("catkey", []string{SKey, SKey}, SKey)
		var t Term
		for i := range e.Args {
			a := arg(i)
			if a.K == KSlice {
				a = Val{K: KKey, T: ev.c.strKey(a)}
			}
			if a.K != KKey {
				efail("catkeys needs keys or strings")
			}
			if i == 0 {
				t = a.T
			} else {
				t = app("catkey", t, a.T)
			}
		}
		return Val{K: KKey, T: t}
	case "box":
		// box(value, "pkg.Type"): the interface value holding a concrete value
		x := arg(0)
		t := ev.v.lookupType(ev.pkg, e.Args[1].S)
		if t == nil {
			efail("unknown type %s", e.Args[1].S)
		}
		return ev.c.box(x, t)
	case "keyof":
		x := arg(0)
		if x.K != KSlice {
			efail("keyof non-string")
		}
		return Val{K: KKey, T: ev.c.strKey(x)}
	case "uint64", "uint32", "uint8", "uint16", "int", "int64", "int32", "int8", "uint", "byte", "Count32", "Count64", "uint128":
		x := arg(0)
		w, signed := map[string]int{"uint64": 64, "uint32": 32, "uint8": 8, "uint16": 16, "int": 64, "int64": 64, "int32": 32, "int8": 8, "uint": 64, "byte": 8, "Count32": 32, "Count64": 64, "uint128": 128}[name], strings.HasPrefix(name, "int")
		if x.K == KLit {
			return ev.coerce(x, bvVal("", w, signed, nil))
		}
		if x.K == KF64 {
			ev.c.hasFP = true
			f := "fp.to_ubv"
			if signed {
				f = "fp.to_sbv"
			}
			return bvVal(fmt.Sprintf("((_ %s %d) RTZ %s)", f, w, x.T), w, signed, nil)
		}
		if x.K != KBV {
			efail("%s() of kind %v", name, x.K)
		}
		r := bvVal("", w, signed, nil)
		switch {
		case x.W == w:
			r.T = x.T
		case x.W > w:
			r.T = fmt.Sprintf("((_ extract %d 0) %s)", w-1, x.T)
		default:
			r.T = extend(x, w)
		}
		return r
	case "float64", "u2f":
		x := arg(0)
		ev.c.hasFP = true
		if x.K == KLit {
			return Val{K: KF64, T: fpLit(x.T), Typ: types.Typ[types.Float64]}
		}
		if x.K == KF64 {
			return x
		}
		if x.K != KBV {
			efail("float64() of kind %v", x.K)
		}
		if x.Signed && name != "u2f" {
			return Val{K: KF64, T: app("(_ to_fp 11 53) RNE", x.T), Typ: types.Typ[types.Float64]}
		}
		return Val{K: KF64, T: app("(_ to_fp_unsigned 11 53) RNE", x.T), Typ: types.Typ[types.Float64]}
	case "finite":
		x := arg(0)
		return boolVal(and(not(app("fp.isNaN", x.T)), not(app("fp.isInfinite", x.T))))
	case "isNaN":
		return boolVal(app("fp.isNaN", arg(0).T))
	case "trunc":
		x := arg(0)
		return bvVal(app("(_ fp.to_sbv 64) RTZ", x.T), 64, true, types.Typ[types.Int])
	case "dyntype":
		// dyntype(iface, "pkg.Type")
		x := arg(0)
		if x.K != KIface || e.Args[1].Op != "str" {
			efail("dyntype(iface, \"type\")")
		}
		t := ev.v.lookupType(ev.pkg, e.Args[1].S)
		if t == nil {
			efail("unknown type %s", e.Args[1].S)
		}
		return boolVal(eq(app("itag", x.T), strconv.Itoa(ev.c.ifaceTag(t))))
	case "implements":
		// implements(iface, "pkg.Interface"): the (non-nil) dynamic type implements it
		x := arg(0)
		t := ev.v.lookupType(ev.pkg, e.Args[1].S)
		if t == nil {
			efail("unknown type %s", e.Args[1].S)
		}
		if _, ok := t.Underlying().(*types.Interface); !ok {
			efail("%s is not an interface", e.Args[1].S)
		}
		return boolVal(and(not(eq(x.T, "inil")), app(ev.v.implPred(ev.c, t), app("itag", x.T))))
	case "unbox":
		// unbox(iface, "pkg.Type") : the value held by the interface
		x := arg(0)
		t := ev.v.lookupType(ev.pkg, e.Args[1].S)
		if t == nil {
			efail("unknown type %s", e.Args[1].S)
		}
		return ev.c.unbox(ev.mem, x.T, t)
	case "fresh":
		// fresh(p): p was allocated during the call (not equal to any pre-existing ref)
		x := arg(0)
		return boolVal(and(app("isfresh", x.T), eq(app("froot", x.T), x.T), app(">", x.T, "0")))
	case "unchanged":
		// unchanged(lvalue): value equal in old and current state
		cur := arg(0)
		if ev.old == nil {
			return boolVal("true")
		}
		o := ev.old.child()
		for k, v := range ev.vars {
			if _, ok := o.vars[k]; !ok {
				o.vars[k] = v
			}
		}
		return boolVal(ev.c.equalVals(cur, o.eval(e.Args[0])))
	case "count24":
		// number of occurrences of byte c among the first min(len, 24) bytes
		s, cb := arg(0), arg(1)
		if cb.K == KLit {
			cb = ev.coerce(cb, bvVal("", 8, false, nil))
		}
		sum := bvLit(128, 0)
		for i := 0; i < 24; i++ {
			bi := bvLit(64, uint64(i))
			sum = app("bvadd", sum, iteT(and(app("bvslt", bi, s.Len), eq(ev.c.sliceElem(s, bi).T, cb.T)), bvLit(128, 1), bvLit(128, 0)))
		}
		return wideVal(sum)
	case "unchanged_all":
		// every memory array known so far is the same as in the old state
		if ev.old == nil {
			return boolVal("true")
		}
		var ks []string
		for k := range memSorts {
			ks = append(ks, k)
		}
		sort.Strings(ks)
		var ts []Term
		for _, k := range ks {
			ts = append(ts, eq(ev.c.memRaw(ev.mem, k), ev.c.memRaw(ev.old.mem, k)))
		}
		return boolVal(and(ts...))
	case "same":
		// representation equality (all leaves equal): a copied value
		a, b := arg(0), arg(1)
		la, lb := leaves(a), leaves(b)
		if len(la) != len(lb) {
			efail("same(): different shapes")
		}
		var ts []Term
		for i := range la {
			ts = append(ts, eq(la[i], lb[i]))
		}
		return boolVal(and(ts...))
	case "oidat":
		// oidat(s, i): the object id made of the 20 bytes s[i..i+20)
		sv, iv := arg(0), arg(1)
		if sv.K != KSlice || len(sv.Arr) != 1 {
			efail("oidat of a non-string")
		}
		it := iv
		if it.K == KLit {
			it = ev.coerce(it, bvVal("", 64, true, types.Typ[types.Int]))
		}
		ot := ev.v.lookupType(nil, "git.OID")
		if ot == nil {
			efail("git.OID not found")
		}
		parts := make([]Term, 20)
		for k := 0; k < 20; k++ {
			parts[k] = ev.c.sliceElem(sv, app("bvadd", it.T, bvLit(64, uint64(k)))).T
		}
		out, _ := ev.c.build(ot, []Term{app("concat", parts...)})
		return out
	case "hasPrefix":
		s, p := arg(0), arg(1)
		return boolVal(ev.c.hasPrefixQ(s, p))
	}
	if sf, ok := ev.v.cs.Specs[name]; ok {
		args := make([]Val, len(e.Args))
		for i := range e.Args {
			args[i] = arg(i)
		}
		return ev.callSpec(sf, args)
	}
	efail("unknown function %s in contract", name)
	return Val{}
}

// specEnv binds the parameters of a spec macro to the arguments.
func (ev *Env) specEnv(sf *SpecFn, args []Val) *Env {
	if len(args) != len(sf.Params) {
		efail("spec %s: want %d args, got %d", sf.Name, len(sf.Params), len(args))
	}
	n := &Env{c: ev.c, v: ev.v, vars: map[string]Val{}, mem: ev.mem, old: ev.old, pkg: ev.v.pkgOf(sf.Pkg)}
	for i, p := range sf.Params {
		t, _, spec := n.sortOfTypeName(p.Type)
		a := args[i]
		if a.K == KLit {
			if spec != "" {
				a = ev.coerce(a, n.mkOfSpecType(spec, []Term{""}))
			} else {
				a = ev.coerce(a, ev.c.zeroVal(t))
			}
		}
		if t != nil && a.Typ == nil {
			a.Typ = t
		}
		n.vars[p.Name] = a
	}
	return n
}

func (ev *Env) callSpec(sf *SpecFn, args []Val) Val {
	if len(args) != len(sf.Params) {
		efail("spec %s: want %d args, got %d", sf.Name, len(sf.Params), len(args))
	}
	// coerce literals to the declared parameter types
	n := &Env{c: ev.c, v: ev.v, vars: map[string]Val{}, mem: ev.mem, old: ev.old, pkg: ev.v.pkgOf(sf.Pkg)}
	var flatArgs []Term
	var argSorts []string
	for i, p := range sf.Params {
		t, sorts, spec := n.sortOfTypeName(p.Type)
		a := args[i]
		if a.K == KLit {
			if spec != "" {
				a = ev.coerce(a, n.mkOfSpecType(spec, []Term{""}))
			} else {
				a = ev.coerce(a, ev.c.zeroVal(t))
			}
		}
		if spec == "wide" && a.K == KBV && a.W != 128 {
			efail("spec %s: argument %d is not wide", sf.Name, i)
		}
		if t != nil && a.Typ == nil {
			a.Typ = t
		}
		n.vars[p.Name] = a
		flatArgs = append(flatArgs, leaves(a)...)
		argSorts = append(argSorts, sorts...)
	}
	if sf.Body != nil {
		return n.eval(sf.Body)
	}
	// uninterpreted
	rt, rsorts, rspec := n.sortOfTypeName(sf.Ret)
	if len(rsorts) != 1 {
		efail("uninterpreted spec %s must return a scalar", sf.Name)
	}
	fname := "spec_" + sf.Name
	ev.c.declFun(fname, argSorts, rsorts[0])
	t := fname
	if len(flatArgs) > 0 {
		t = app(fname, flatArgs...)
	}
	if rspec != "" {
		return n.mkOfSpecType(rspec, []Term{t})
	}
	v, _ := ev.c.build(rt, []Term{t})
	return v
}

// staleRef: the clause names a local, call or struct field that does not exist
// in the code as it is now. Such a clause cannot be discharged: where it is
// to be proved it is a failing obligation, where it would be assumed it is
// skipped.
func staleRef(err error) bool {
	s := err.Error()
	return strings.Contains(s, "unknown identifier") || strings.Contains(s, "no field ")
}

// fieldAlias: the field of struct type t that was called `name` on the
// reference tree, if it has merely been renamed since: the struct still has
// the same number of fields, the field at that position has the same type, and
// its new name was not a field of the struct before.
func fieldAlias(t types.Type, name string) string {
	n, ok := derefType(t).(*types.Named)
	if !ok || n.Obj().Pkg() == nil || lockStructs == nil {
		return ""
	}
	st, ok := n.Underlying().(*types.Struct)
	if !ok {
		return ""
	}
	old := lockStructs[n.Obj().Pkg().Path()+"."+n.Obj().Name()]
	if len(old) != st.NumFields() {
		return ""
	}
	was := map[string]bool{}
	for _, f := range old {
		was[strings.SplitN(f, " ", 2)[0]] = true
	}
	for i, f := range old {
		parts := strings.SplitN(f, " ", 2)
		if parts[0] != name {
			continue
		}
		nf := st.Field(i)
		if !was[nf.Name()] && types.TypeString(nf.Type(), nil) == parts[1] {
			return nf.Name()
		}
	}
	return ""
}
