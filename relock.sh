#!/bin/sh
# Re-create obligations.lock on the reference tree: quick tier (obligations,
# signatures) for every property, then thorough tier (reachability covers).
# Only to be run on a tree on which every check passes.
cd "$(dirname "$0")"
ids=$(python3 -c "import json;print(' '.join(json.loads(l)['id'] for l in open('properties.jsonl')))")
for i in $ids; do ./bin/vcgen check --write-lock "$i" 2>&1 | tail -1; done
if [ "$1" = "--thorough" ]; then
  for i in $ids; do ./bin/vcgen check --tier thorough --write-lock "$i" 2>&1 | tail -1; done
fi
