# Per-property claims for MANIFEST.json (consumed by gen_manifest.py).
claimed = {
 "C02": ("Proof, for all operands, that every Max* update is max(old, candidate) (counts.AdjustMax* full functional contracts; record* postconditions; umax lemmas). Universal over inputs, which no test sample can give.",
         "Assumes: what git enumerates (A-GIT-REVLIST); go/ssa + solvers + vcgen (M3); sequential execution (mutexes are no-ops). Parent/entry counting loops are listed in evidence when under contract.",
         "DESIGN.md §7 C02"),
 "C04": ("Proof of the per-entry combination step of checkout metrics (addDescendent/addBlob/addLink/addSubmodule full functional contracts incl. frames, saturating) and of the seven independent maxima in recordTree.",
         "Assumes the listener protocol composes the steps (A-LISTENER) until initialize/maybeFinalize are under contract; M3; A-MACHINE.",
         "DESIGN.md §7 C04"),
 "C05": ("Proof that every counter operation returns min(true value, capacity) with the true value computed in 128-bit arithmetic, for all 2^64/2^128 operand pairs; zero-annotation overflow sweep over Count arithmetic outside package counts.",
         "Linear-time clause not decidable by contracts (complexity). Narrow-then-wide (32-bit object sizes) is a recorded finding when claimed. M3.",
         "DESIGN.md §7 C05"),
 "C15": ("Proof that GetConfig consumes exactly one NUL-terminated record per iteration for every byte string git may print (transition invariant), with key/value split at the first LF inside the record, and full functional contract of configKeyMatchesPrefix (component boundary at '.').",
         "Assumes A-GIT-CONFIG-Z (record format, scopes and order are git's), A-STD-SEARCH (IndexByte/HasPrefix contracts). augmentFromConfig/readRefgroupsFromGitconfig are listed in evidence once under contract.",
         "DESIGN.md §7 C15"),
 "C16": ("Proof of totality for all byte strings: every index, slice bound and explicit panic in the tree/commit/tag/header/batch-header/reference/oid parsers is discharged with precondition true; strict consumption (termination measures) for the iterators; NextEntry consumes mode SP name NUL oid[20].",
         "Assumes A-STD-SEARCH/A-STD-CONV contracts of strings/bytes/strconv/hex. Losslessness of the byte layout is stated through lengths and offsets; numeric Filemode drops leading zeros (canonical modes only).",
         "DESIGN.md §7 C16"),
 "C01": ("Proof of the per-object accounting: each record{Blob,Tree,Commit,Tag,Reference} call adds exactly one to its count and the object's size/entry count to the totals (saturating), with exact frames.",
         "What git enumerates is A-GIT-REVLIST; that each object reaches exactly one record* call is proved only once RegisterX / ScanRepositoryUsingGraph are under contract (listed in evidence).",
         "DESIGN.md §7 C01"),
}
na = {}
