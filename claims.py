# Per-property claims for MANIFEST.json (consumed by gen_manifest.py).
claimed = {
 "C02": ("Proof, for all operands, that every Max* update is max(old, candidate) (counts.AdjustMax* full functional contracts; record* postconditions; umax lemmas). Universal over inputs, which no test sample can give.",
         "Assumes: what git enumerates (A-GIT-REVLIST); go/ssa + solvers + vcgen (M3); sequential execution (mutexes are no-ops). Parent/entry counting loops are listed in evidence when under contract.",
         "DESIGN.md §7 C02"),
 "C04": ("Proof of the per-entry combination step of checkout metrics (addDescendent/addBlob/addLink/addSubmodule full functional contracts incl. frames, saturating) and of the seven independent maxima in recordTree.",
         "Assumes the listener protocol composes the steps (A-LISTENER) until initialize/maybeFinalize are under contract; M3; A-MACHINE.",
         "DESIGN.md §7 C04"),
 "C05": ("Proof that every counter operation returns min(true value, capacity) with the true value computed in 128-bit arithmetic, for all 2^64/2^128 operand pairs; zero-annotation overflow sweep over Count arithmetic outside package counts.",
         "Linear-time clause not decidable by contracts (complexity). Narrow-then-wide (32-bit object sizes) is a recorded finding when claimed. M3.",
         "DESIGN.md §7 C05"),
}
na = {}
