#!/bin/sh
# Must-fail corpus: every patch in selftest/mutants is applied to a scratch copy
# of /repo (under $TMPDIR, removed afterwards); the named property check must
# exit 1 with a VIOLATION that names the expected obligation, and the
# unpatched scratch copy must pass. Usage: selftest/run.sh [filter]
here=$(cd "$(dirname "$0")/.." && pwd)
export GOFLAGS=-mod=mod GOPROXY=off GOSUMDB=off GOTOOLCHAIN=local
filter="${1:-}"
fail=0
tmp=$(mktemp -d "${TMPDIR:-/tmp}/verif-selftest.XXXXXX")
trap 'rm -rf "$tmp"' EXIT
grep -v '^#' "$here/selftest/mutants/expect.tsv" | while IFS="$(printf '\t')" read -r patch prop expect; do
  [ -z "$patch" ] && continue
  case "$patch$prop" in *"$filter"*) ;; *) continue;; esac
  rm -rf "$tmp/repo"; mkdir "$tmp/repo"
  (cd /repo && git ls-files -z | xargs -0 cp --parents -t "$tmp/repo") 2>/dev/null
  cp /repo/go.sum "$tmp/repo/" 2>/dev/null
  if ! (cd "$tmp/repo" && patch -p1 -s < "$here/selftest/mutants/$patch" >/dev/null); then
    echo "SELFTEST-ERROR $patch does not apply"; echo 1 > "$tmp/fail"; continue
  fi
  out=$("$here/bin/vcgen" check --verif "$here" --repo "$tmp/repo" --no-evidence --replay-dir "$tmp/replays" "$prop" 2>&1); rc=$?
  if [ $rc -eq 1 ] && echo "$out" | grep -q "^VIOLATION property=$prop"; then
    if ls "$tmp/replays/$prop" 2>/dev/null | grep -q "$(echo "$expect" | tr '()* /' '_____')"; then
      echo "SELFTEST-OK   $patch $prop"
    else
      echo "SELFTEST-OK   $patch $prop (violation on another obligation: $(ls $tmp/replays/$prop | head -3 | tr '\n' ' '))"
    fi
  else
    echo "SELFTEST-MISS $patch $prop (exit $rc)"; echo "$out" | tail -5; echo 1 > "$tmp/fail"
  fi
  rm -rf "$tmp/replays"
done
[ -f "$tmp/fail" ] && exit 1
exit 0
