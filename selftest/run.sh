#!/bin/sh
# Must-fail corpus: every patch in selftest/mutants/expect.tsv is applied to a
# scratch copy of /repo (under $TMPDIR, removed afterwards); the named property
# check must exit 1 with a VIOLATION, and nothing else counts as caught.
# Usage: selftest/run.sh [filter]      (SELFTEST_JOBS=4 items run concurrently;
# SELFTEST_PROP=<id> restricts to one property; SELFTEST_SKIP_UNAPPLICABLE=1
# tolerates patches that do not apply to the current tree)
here=$(cd "$(dirname "$0")/.." && pwd)
export GOFLAGS=-mod=mod GOPROXY=off GOSUMDB=off GOTOOLCHAIN=local
filter="${1:-}"
jobs="${SELFTEST_JOBS:-4}"
tmp=$(mktemp -d "${TMPDIR:-/tmp}/verif-selftest.XXXXXX")
trap 'rm -rf "$tmp"' EXIT
one() {
  n="$1"; patch="$2"; prop="$3"; expect="$4"
  d="$tmp/$n"; mkdir -p "$d/repo"
  (cd /repo && git ls-files -z | xargs -0 cp --parents -t "$d/repo") 2>/dev/null
  cp /repo/go.sum "$d/repo/" 2>/dev/null
  if ! (cd "$d/repo" && patch -p1 -s < "$here/selftest/mutants/$patch" >/dev/null); then
    echo "SELFTEST-ERROR $patch does not apply"; [ -n "${SELFTEST_SKIP_UNAPPLICABLE:-}" ] || echo 1 > "$tmp/fail"; rm -rf "$d"; return
  fi
  out=$("$here/bin/vcgen" check --verif "$here" --repo "$d/repo" --no-evidence --replay-dir "$d/replays" "$prop" 2>&1); rc=$?
  if [ $rc -eq 1 ] && echo "$out" | grep -q "^VIOLATION property=$prop"; then
    if ls "$d/replays/$prop" 2>/dev/null | grep -q "$(echo "$expect" | tr '()* /' '_____')"; then
      echo "SELFTEST-OK   $patch $prop"
    else
      echo "SELFTEST-OK   $patch $prop (violation on: $(ls $d/replays/$prop | head -3 | tr '\n' ' '))"
    fi
  else
    echo "SELFTEST-MISS $patch $prop (exit $rc)"; echo "$out" | tail -5; echo 1 > "$tmp/fail"
  fi
  rm -rf "$d"
}
n=0
grep -v '^#' "$here/selftest/mutants/expect.tsv" > "$tmp/list"
while IFS="$(printf '\t')" read -r patch prop expect; do
  [ -z "$patch" ] && continue
  case "$patch$prop" in *"$filter"*) ;; *) continue;; esac
  if [ -n "${SELFTEST_PROP:-}" ] && [ "$prop" != "$SELFTEST_PROP" ]; then continue; fi
  n=$((n+1))
  one "$n" "$patch" "$prop" "$expect" &
  if [ $((n % jobs)) -eq 0 ]; then wait; fi
done < "$tmp/list"
wait
[ -f "$tmp/fail" ] && exit 1
exit 0
