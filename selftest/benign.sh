#!/bin/sh
# Must-pass corpus: behaviour-preserving edits (rename, reorder, extract helper,
# shifted positions, added logging) applied to a scratch copy of /repo; every
# listed check must exit 0 without a VIOLATION line. Usage: selftest/benign.sh [filter]
here=$(cd "$(dirname "$0")/.." && pwd)
export GOFLAGS=-mod=mod GOPROXY=off GOSUMDB=off GOTOOLCHAIN=local
filter="${1:-}"
tmp=$(mktemp -d "${TMPDIR:-/tmp}/verif-benign.XXXXXX")
trap 'rm -rf "$tmp"' EXIT
grep -v '^#' "$here/selftest/benign/expect.tsv" | while IFS="$(printf '\t')" read -r patch props; do
  [ -z "$patch" ] && continue
  case "$patch" in *"$filter"*) ;; *) continue;; esac
  rm -rf "$tmp/repo"; mkdir "$tmp/repo"
  (cd /repo && git ls-files -z | xargs -0 cp --parents -t "$tmp/repo") 2>/dev/null
  if ! (cd "$tmp/repo" && patch -p1 -s < "$here/selftest/benign/$patch" >/dev/null); then
    echo "BENIGN-ERROR $patch does not apply"; echo 1 > "$tmp/fail"; continue
  fi
  if ! (cd "$tmp/repo" && go build ./... >/dev/null 2>&1); then
    echo "BENIGN-ERROR $patch does not build"; echo 1 > "$tmp/fail"; continue
  fi
  for prop in $props; do
    out=$("$here/bin/vcgen" check --verif "$here" --repo "$tmp/repo" --no-evidence --replay-dir "$tmp/replays" "$prop" 2>&1); rc=$?
    if [ $rc -eq 0 ] && ! echo "$out" | grep -q "^VIOLATION"; then
      echo "BENIGN-OK    $patch $prop"
    else
      echo "BENIGN-ALARM $patch $prop (exit $rc)"; echo "$out" | grep -E "VIOLATION|UNDECIDED" | head -5; echo 1 > "$tmp/fail"
    fi
  done
done
[ -f "$tmp/fail" ] && exit 1
exit 0
